package c03

// The enumerated archive families. Every family is a pure function of the tier: the list is the same on every run and
// a case is identified by (family, index).

import (
	"fmt"
	"strings"
)

// ---- family "flat": every sequence of <= K members over a letter alphabet ------------------------------------------

type letter struct {
	kind  string
	size  int
	depth int
	store bool
}

func flatAlphabet(thorough bool) []letter {
	a := []letter{
		{"file", 0, 0, false}, {"file", 1, 0, false}, {"file", 3, 0, false}, {"file", big, 0, false}, {"file", big + 1, 0, false},
		{"file", 2, 0, true}, {"file", 2, 1, false}, {"file", 2, 3, false},
		{"dir", 0, 0, false}, {"dir", 0, 2, false},
		{"fakezip", 3, 0, false},
	}
	if thorough {
		a = append(a, letter{"file", 2, 0, false}, letter{"file", big - 1, 0, false}, letter{"file", 2, 2, false}, letter{"file", big, 1, false}, letter{"dir", 0, 3, false})
	}
	return a
}

func (l letter) node(i int) node {
	prefix := strings.Repeat("p/", l.depth)
	switch l.kind {
	case "dir":
		return node{Kind: "dir", Name: fmt.Sprintf("%sd%d/", prefix, i)}
	case "fakezip":
		return node{Kind: "fakezip", Name: fmt.Sprintf("%se%d.zip", prefix, i), Size: l.size}
	}
	return node{Kind: "file", Name: fmt.Sprintf("%se%d", prefix, i), Size: l.size, Store: l.store}
}

func famFlat(thorough bool) []archive {
	alpha := flatAlphabet(thorough)
	var out []archive
	maxSeq := 3
	emit := func(idx []int) {
		kids := make([]node, len(idx))
		for i, x := range idx {
			kids[i] = alpha[x].node(i)
		}
		out = append(out, archive{Family: "flat", Kids: kids})
	}
	for n := 0; n <= maxSeq; n++ { // all sequences of length n
		idx := make([]int, n)
		var gen func(pos int)
		gen = func(pos int) {
			if pos == n {
				emit(idx)
				return
			}
			for x := range alpha {
				idx[pos] = x
				gen(pos + 1)
			}
		}
		gen(0)
	}
	if thorough { // length 4: every multiset (members in non-decreasing letter order)
		idx := make([]int, 4)
		var gen func(pos, from int)
		gen = func(pos, from int) {
			if pos == 4 {
				emit(idx)
				return
			}
			for x := from; x < len(alpha); x++ {
				idx[pos] = x
				gen(pos+1, x)
			}
		}
		gen(0, 0)
	}
	return out
}

// ---- family "chain": archives nested inside archives, depth 1..N -----------------------------------------------------

func payloads() [][]node {
	return [][]node{
		{{Kind: "file", Name: "f", Size: 3}},
		{{Kind: "file", Name: "f", Size: big}},
		{{Kind: "file", Name: "f", Size: 1}, {Kind: "file", Name: "g", Size: big + 1}},
		{{Kind: "file", Name: "q/f", Size: 2}},
		{{Kind: "dir", Name: "d/"}},
		{{Kind: "fakezip", Name: "f.zip", Size: 3}},
	}
}

// wrap puts inner into one more archive level according to the variant.
func wrap(level int, variant string, inner []node) []node {
	n := node{Kind: "zip", Name: fmt.Sprintf("n%d.zip", level), Kids: inner}
	switch variant {
	case "stored":
		n.Store = true
	case "subdir":
		n.Name = "p/" + n.Name
	case "jar":
		n.Name = fmt.Sprintf("n%d.JAR", level)
	case "sibling":
		return []node{{Kind: "file", Name: fmt.Sprintf("s%d", level), Size: 1}, n}
	case "sibling-after":
		return []node{n, {Kind: "file", Name: fmt.Sprintf("s%d", level), Size: 1}}
	}
	return []node{n}
}

func famChain(minDepth, maxDepth int, variants []string, name string) []archive {
	var out []archive
	for _, pl := range payloads() {
		for n := minDepth; n <= maxDepth; n++ {
			choice := make([]int, n)
			var gen func(pos int)
			gen = func(pos int) {
				if pos == n {
					kids := pl
					for lvl := n; lvl >= 1; lvl-- { // innermost wrapped first
						kids = wrap(lvl, variants[choice[lvl-1]], kids)
					}
					out = append(out, archive{Family: name, Kids: kids})
					return
				}
				for v := range variants {
					choice[pos] = v
					gen(pos + 1)
				}
			}
			gen(0)
		}
	}
	return out
}

// ---- family "fan": fan-out 2 to depth D ------------------------------------------------------------------------------

func fanTree(depth int, leaf func(i int) []node, sibling bool, counter *int, level int) []node {
	if depth == 0 {
		*counter++
		return leaf(*counter - 1)
	}
	var kids []node
	if sibling {
		kids = append(kids, node{Kind: "file", Name: fmt.Sprintf("s%d", level), Size: 1})
	}
	for b := 0; b < 2; b++ {
		kids = append(kids, node{Kind: "zip", Name: fmt.Sprintf("b%d.zip", b), Kids: fanTree(depth-1, leaf, sibling, counter, level+1)})
	}
	return kids
}

func famFan(maxDepth int) []archive {
	leaves := []func(i int) []node{
		func(i int) []node { return []node{{Kind: "file", Name: "f", Size: 1}} },
		func(i int) []node { return []node{{Kind: "file", Name: "f", Size: big}} },
		func(i int) []node {
			if i == 0 {
				return []node{{Kind: "file", Name: "f", Size: big + 1}}
			}
			return []node{{Kind: "file", Name: "f", Size: 1}}
		},
	}
	var out []archive
	for d := 1; d <= maxDepth; d++ {
		for _, lf := range leaves {
			for _, sib := range []bool{false, true} {
				c := 0
				out = append(out, archive{Family: "fan", Kids: fanTree(d, lf, sib, &c, 0)})
			}
		}
	}
	return out
}

// ---- family "bomb": 1 MiB of zeros per bomb ---------------------------------------------------------------------------

func famBomb(maxDepth, fanDepth int) []archive {
	var out []archive
	bomb := func(name string) node { return node{Kind: "file", Name: name, Size: mib} }
	// flat
	out = append(out, archive{Family: "bomb", Kids: []node{bomb("bomb"), {Kind: "file", Name: "small", Size: 3}}})
	out = append(out, archive{Family: "bomb", Kids: []node{{Kind: "file", Name: "small", Size: 3}, bomb("bomb"), bomb("bomb2")}})
	for n := 0; n <= maxDepth; n++ {
		// one bomb at the innermost level of a chain of depth n
		kids := []node{bomb("bomb")}
		for lvl := n; lvl >= 1; lvl-- {
			kids = wrap(lvl, "plain", kids)
		}
		out = append(out, archive{Family: "bomb", Kids: kids})
		if n == 0 {
			continue
		}
		// one bomb per nesting level
		kids = []node{bomb("bomb")}
		for lvl := n; lvl >= 1; lvl-- {
			kids = append([]node{bomb(fmt.Sprintf("bomb%d", lvl))}, wrap(lvl, "plain", kids)...)
		}
		out = append(out, archive{Family: "bomb", Kids: kids})
	}
	// 42.zip style: fan-out 2, a bomb in every leaf
	for d := 1; d <= fanDepth; d++ {
		c := 0
		out = append(out, archive{Family: "bomb", Kids: fanTree(d, func(int) []node { return []node{bomb("bomb")} }, false, &c, 0)})
	}
	return out
}

// ---- family "liar": announced sizes that disagree with the stream ---------------------------------------------------

func famLiar(thorough bool) []archive {
	var out []archive
	actuals := []int{3, big}
	placements := []string{"alone", "after-honest", "before-honest", "nested1"}
	if thorough {
		actuals = []int{1, 3, big}
		placements = append(placements, "nested2")
	}
	for _, a := range actuals {
		for _, store := range []bool{false, true} {
			for _, class := range []string{"zero", "minus1", "plus1", "huge"} {
				for _, where := range []string{"cd", "local", "both"} {
					for _, pl := range placements {
						l := node{Kind: "file", Name: "liar", Size: a, Store: store, Lie: &lie{Class: class, Where: where}}
						honest := node{Kind: "file", Name: "h", Size: 1}
						var kids []node
						switch pl {
						case "alone":
							kids = []node{l}
						case "after-honest":
							kids = []node{honest, l}
						case "before-honest":
							kids = []node{l, honest}
						case "nested1":
							kids = wrap(1, "plain", []node{l})
						case "nested2":
							kids = wrap(1, "sibling", wrap(2, "plain", []node{honest, l}))
						}
						out = append(out, archive{Family: "liar", Kids: kids})
					}
				}
			}
		}
	}
	// the nested archive member itself is announced with a wrong size
	for _, store := range []bool{false, true} {
		for _, class := range []string{"zero", "minus1", "plus1", "huge"} {
			for _, where := range []string{"cd", "both"} {
				n := node{Kind: "zip", Name: "n1.zip", Store: store, Lie: &lie{Class: class, Where: where}, Kids: []node{{Kind: "file", Name: "f", Size: 3}, {Kind: "file", Name: "g", Size: big}}}
				out = append(out, archive{Family: "liar", Kids: []node{n, {Kind: "file", Name: "h", Size: 1}}})
			}
		}
	}
	// announced sizes that are negative once converted to a signed 64-bit integer (2^63, 2^64-1): small streams and a bomb
	for _, a := range []int{3, mib} {
		for _, store := range []bool{false, true} {
			if store && a == mib {
				continue
			}
			for _, class := range []string{"sign", "max"} {
				for _, where := range []string{"cd", "both"} {
					l := node{Kind: "file", Name: "liar", Size: a, Store: store, Lie: &lie{Class: class, Where: where}}
					out = append(out, archive{Family: "liar", Kids: []node{l}})
					out = append(out, archive{Family: "liar", Kids: []node{{Kind: "file", Name: "h", Size: 1}, l}})
					out = append(out, archive{Family: "liar", Kids: wrap(1, "plain", []node{l})})
				}
			}
		}
	}
	// a lying bomb: 1 MiB stream announced as 1 byte / as 3 bytes more
	for _, class := range []string{"zero", "minus1", "plus1"} {
		out = append(out, archive{Family: "liar", Kids: []node{{Kind: "file", Name: "bomb", Size: mib, Lie: &lie{Class: class, Where: "both"}}}})
	}
	return out
}

// ---- family "odd": zip-named non-zips, zips without a zip name, broken nested zips -----------------------------------

func famOdd() []archive {
	var out []archive
	inner := []node{{Kind: "file", Name: "f", Size: 3}, {Kind: "file", Name: "g", Size: big}}
	for _, ext := range []string{".gz", ".tar.gz", ".7z", ".jar", ".pack", ".z", ".ZIP", ".zipx", ".tgz"} {
		out = append(out, archive{Family: "odd", Kids: []node{{Kind: "fakezip", Name: "x" + ext, Size: big}, {Kind: "file", Name: "h", Size: 1}}})
		out = append(out, archive{Family: "odd", Kids: []node{{Kind: "zip", Name: "x" + ext, Kids: inner}, {Kind: "file", Name: "h", Size: 1}}})
	}
	out = append(out, archive{Family: "odd", Kids: []node{{Kind: "zip", Name: "x.bin", Kids: inner}, {Kind: "file", Name: "h", Size: 1}}}) // a zip without a zip name: never recursed into
	out = append(out, archive{Family: "odd", Kids: []node{{Kind: "emptyzip", Name: "x.zip"}, {Kind: "file", Name: "h", Size: 1}}})
	out = append(out, archive{Family: "odd", Kids: []node{{Kind: "fakezip", Name: "x.zip", Size: 0}, {Kind: "fakezip", Name: "p/y.zip", Size: 1}}})
	out = append(out, archive{Family: "odd", Kids: []node{{Kind: "corrupt", Name: "x.zip"}, {Kind: "file", Name: "h", Size: 1}}})
	out = append(out, archive{Family: "odd", Kids: []node{{Kind: "file", Name: "h", Size: 1}, {Kind: "zip", Name: "n1.zip", Kids: []node{{Kind: "corrupt", Name: "x.zip"}}}}})
	// nested archives that fail after some of their members were written (sound central directory, last member damaged):
	// one, several side by side (what they leave behind adds up), one level further down
	half := func(name string) node {
		return node{Kind: "halfzip", Name: name, Kids: []node{{Kind: "file", Name: "f", Size: 3}, {Kind: "file", Name: "g", Size: big}, {Kind: "file", Name: "bad", Size: 2}}}
	}
	out = append(out, archive{Family: "odd", Kids: []node{{Kind: "file", Name: "h", Size: 1}, half("n1.zip")}})
	out = append(out, archive{Family: "odd", Kids: []node{half("n1.zip"), half("n2.zip"), half("n3.jar"), {Kind: "file", Name: "h", Size: 1}}})
	out = append(out, archive{Family: "odd", Kids: []node{{Kind: "zip", Name: "o.zip", Kids: []node{half("n1.zip"), {Kind: "file", Name: "h", Size: 1}}}}})
	// a nested archive that sits deep in a sub-directory and is FOLLOWED by a shallower entry (its own depth, not that of
	// whatever was extracted last, is what its content is measured from); one and two levels
	deepFile := []node{{Kind: "file", Name: "x/y/z", Size: 3}}
	out = append(out, archive{Family: "odd", Kids: []node{{Kind: "zip", Name: "p/q/r/n1.zip", Kids: deepFile}, {Kind: "file", Name: "h", Size: 1}}})
	out = append(out, archive{Family: "odd", Kids: []node{{Kind: "file", Name: "g", Size: 1}, {Kind: "zip", Name: "p/q/r/n1.zip", Kids: deepFile}, {Kind: "file", Name: "p/h", Size: 1}}})
	out = append(out, archive{Family: "odd", Kids: []node{{Kind: "zip", Name: "p/q/n1.zip", Kids: []node{{Kind: "zip", Name: "u/v/n2.zip", Kids: []node{{Kind: "file", Name: "f", Size: 2}}}, {Kind: "file", Name: "g", Size: 1}}}, {Kind: "file", Name: "h", Size: 1}}})
	// directories whose names consist of dots only (three or more: legal names, not parent references) count towards the depth
	out = append(out, archive{Family: "odd", Kids: []node{{Kind: "file", Name: ".../f", Size: 2}}})
	out = append(out, archive{Family: "odd", Kids: []node{{Kind: "file", Name: ".../..../...../payload.txt", Size: 3}, {Kind: "file", Name: "h", Size: 1}}})
	out = append(out, archive{Family: "odd", Kids: []node{{Kind: "file", Name: "a/.../b/..../f", Size: 2}}})
	out = append(out, archive{Family: "odd", Kids: []node{{Kind: "zip", Name: ".../n1.zip", Kids: []node{{Kind: "file", Name: "..../...../f", Size: 2}}}, {Kind: "file", Name: "h", Size: 1}}})
	// nested archive and a sibling directory with the name the nested archive is extracted to
	out = append(out, archive{Family: "odd", Kids: []node{{Kind: "file", Name: "n1/f", Size: 2}, {Kind: "zip", Name: "n1.zip", Kids: []node{{Kind: "file", Name: "g", Size: 3}}}}})
	return out
}

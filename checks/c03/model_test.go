package c03

// Archive model (what the generator enumerates), its serialisation with the lying writer, and the part of the
// extraction *layout* (which entry lands at which path) that the oracle needs to relate a written handle to the
// header that announced it. The accounting of the limits is NOT modelled anywhere: the oracle is differential (T0).

import (
	"bytes"
	"fmt"
	"path/filepath"
	"strings"
)

const (
	big  = 5000    // "large" member: bigger than any of the small archives that carry it (so the per-file limit can sit between archive size and member size)
	mib  = 1 << 20 // a bomb: 1 MiB of zeros, ~1 KiB deflated
	huge = 1 << 50 // "no limit in practice"
)

// lie says that an announced uncompressed size differs from the real stream.
type lie struct {
	Class string `json:"class"` // zero | minus1 | plus1 | huge | sign | max  (declared = 0, actual-1, actual+1, 2^40, 2^63, 2^64-1)
	Where string `json:"where"` // cd | local | both
}

func (l *lie) value(actual int) uint64 {
	switch l.Class {
	case "zero":
		return 0
	case "minus1":
		return uint64(actual - 1)
	case "plus1":
		return uint64(actual + 1)
	case "sign":
		return 1 << 63 // negative once converted to int64
	case "max":
		return 1<<64 - 1
	default:
		return 1 << 40
	}
}

// node is a member of an archive.
type node struct {
	Kind  string `json:"kind"` // file | dir | zip | fakezip | corrupt | emptyzip | halfzip
	Name  string `json:"name"` // name inside its archive ('/'-separated, directories end with '/')
	Size  int    `json:"size,omitempty"`
	Store bool   `json:"store,omitempty"`
	Lie   *lie   `json:"lie,omitempty"`
	Kids  []node `json:"kids,omitempty"`
}

type archive struct {
	Family string `json:"family"`
	Kids   []node `json:"kids"`
}

func (n *node) content() []byte {
	switch n.Kind {
	case "file":
		b := make([]byte, n.Size)
		if n.Size <= 64 {
			for i := range b {
				b[i] = 'a' + byte(i%26)
			}
		}
		return b
	case "fakezip": // a non-zip carrying a zip extension
		return bytes.Repeat([]byte("this is not a zip. "), n.Size/19+1)[:n.Size]
	case "corrupt": // zip magic, then garbage: sniffed as a zip, cannot be opened as one
		return append([]byte("PK\x03\x04"), bytes.Repeat([]byte{0xAA}, 60)...)
	case "emptyzip": // a valid archive without members (22 bytes; not sniffed as zip by content)
		return writeRawZip(nil)
	case "zip":
		return buildZip(n.Kids)
	case "halfzip":
		// an archive whose central directory is sound and whose members can be extracted one after the other — until the
		// last one, whose local header is damaged: the failure comes after the earlier members have been written
		b := buildZip(n.Kids)
		cd := bytes.Index(b, []byte("PK\x01\x02"))
		if cd < 0 {
			return b
		}
		if last := bytes.LastIndex(b[:cd], []byte("PK\x03\x04")); last > 0 {
			copy(b[last:], "XXXX")
		}
		return b
	}
	return nil
}

func buildZip(kids []node) []byte {
	es := make([]rawEntry, 0, len(kids))
	for i := range kids {
		k := &kids[i]
		e := rawEntry{Name: k.Name, Method: methodDeflate}
		if k.Store {
			e.Method = methodStore
		}
		if k.Kind == "dir" {
			e.IsDir = true
		} else {
			e.Content = k.content()
		}
		a := len(e.Content)
		e.LocalUSize, e.CDUSize = uint64(a), uint64(a)
		if k.Lie != nil {
			v := k.Lie.value(a)
			if k.Lie.Where == "cd" || k.Lie.Where == "both" {
				e.CDUSize = v
			}
			if k.Lie.Where == "local" || k.Lie.Where == "both" {
				e.LocalUSize = v
			}
		}
		es = append(es, e)
	}
	return writeRawZip(es)
}

var zipExts = map[string]bool{".zip": true, ".zipx": true, ".7z": true, ".s7z": true, ".gz": true, ".tgz": true, ".xz": true, ".lz": true, ".lzma": true, ".rz": true, ".pack": true, ".z": true, ".jar": true}

func zipNamed(name string) bool { return zipExts[strings.ToLower(filepath.Ext(name))] }

func stem(p string) string { return strings.TrimSuffix(filepath.Base(p), filepath.Ext(p)) }

// traits of an archive, for signatures and for deciding which oracle clauses apply.
type traits struct {
	Liar        bool // some announced size (either header) differs from its stream
	CDLiar      bool // ... in the central directory (the header the extractor reads)
	Corrupt     bool
	Nested      bool
	LieClasses  string
}

func scan(kids []node, t *traits, classes map[string]bool) {
	for i := range kids {
		k := &kids[i]
		if k.Lie != nil {
			t.Liar = true
			if k.Lie.Where != "local" {
				t.CDLiar = true
			}
			if k.Lie.Where != "local" {
				classes[k.Lie.Class] = true
			}
		}
		switch k.Kind {
		case "corrupt":
			t.Corrupt = true
		case "halfzip":
			t.Corrupt = true
			if zipNamed(k.Name) {
				t.Nested = true
			}
			scan(k.Kids, t, classes)
		case "zip":
			if zipNamed(k.Name) {
				t.Nested = true
			}
			scan(k.Kids, t, classes)
		}
	}
}

func (a *archive) traits() traits {
	var t traits
	cl := map[string]bool{}
	scan(a.Kids, &t, cl)
	var l []string
	for _, c := range []string{"zero", "minus1", "plus1", "huge", "sign", "max"} {
		if cl[c] {
			l = append(l, c)
		}
	}
	t.LieClasses = strings.Join(l, "+") // classes of the lies the extractor can see (central directory)
	if len(l) == 0 && t.Liar {
		t.LieClasses = "local-header-only"
	}
	return t
}

func (a *archive) shape() string {
	t := a.traits()
	switch {
	case t.Liar:
		return "liar"
	case t.Corrupt:
		return "corrupt"
	case t.Nested:
		return "nested"
	}
	return "flat"
}

// layout: where members land. declared[path] = the largest size any header (central directory or local) of a member
// landing at that path announces ("longer than the size its header declares": weakest reading = the larger of the two
// headers, the larger of all members sharing the path). shortReach = a member whose central directory announces MORE
// than its stream holds is reached by the extraction (top level, or nested below honest zip-named archives in
// recursive mode).
type layout struct {
	declared   map[string]uint64
	files      map[string]int64 // honest archives: the expected tree (path -> size)
	dirs       map[string]bool
	shortReach bool
}

func newLayout() *layout {
	return &layout{declared: map[string]uint64{}, files: map[string]int64{}, dirs: map[string]bool{}}
}

func (l *layout) addAncestors(root, p string) {
	for d := filepath.Dir(p); len(d) > len(root) && strings.HasPrefix(d, root); d = filepath.Dir(d) {
		l.dirs[d] = true
	}
}

func (l *layout) place(root, dest string, kids []node, rec bool, reached bool) {
	for i := range kids {
		k := &kids[i]
		p := filepath.Join(dest, k.Name)
		l.addAncestors(root, p)
		if k.Kind == "dir" {
			l.dirs[p] = true
			continue
		}
		c := k.content()
		a := len(c)
		cd, local := uint64(a), uint64(a) // what the central directory / the local header announce
		if k.Lie != nil {
			v := k.Lie.value(a)
			if k.Lie.Where != "local" {
				cd = v
			}
			if k.Lie.Where != "cd" {
				local = v
			}
			if cd > uint64(a) && reached {
				l.shortReach = true
			}
		}
		d := max(cd, local) // weakest reading of "the size its header declares": the larger of the two headers
		if old, ok := l.declared[p]; !ok || d > old {
			l.declared[p] = d
		}
		if (k.Kind == "zip" || k.Kind == "halfzip") && rec && zipNamed(k.Name) {
			nd := filepath.Join(filepath.Dir(p), stem(p))
			l.dirs[nd] = true
			l.place(root, nd, k.Kids, rec, reached && (k.Lie == nil || k.Lie.Where == "local"))
			continue
		}
		l.files[p] = int64(a)
	}
}

func (a *archive) layout(dest string, rec bool) *layout {
	l := newLayout()
	l.place(dest, dest, a.Kids, rec, true)
	return l
}

// describe renders an archive on one line.
func describe(kids []node) string {
	var sb strings.Builder
	sb.WriteByte('[')
	for i := range kids {
		k := &kids[i]
		if i > 0 {
			sb.WriteByte(' ')
		}
		sb.WriteString(k.Name)
		switch k.Kind {
		case "file":
			fmt.Fprintf(&sb, ":%d", k.Size)
		case "fakezip":
			fmt.Fprintf(&sb, ":notzip%d", k.Size)
		case "corrupt", "emptyzip":
			sb.WriteString(":" + k.Kind)
		case "zip":
			sb.WriteString(describe(k.Kids))
		case "halfzip":
			sb.WriteString(describe(k.Kids) + "(last member's local header damaged)")
		}
		if k.Store {
			sb.WriteString("(stored)")
		}
		if k.Lie != nil {
			fmt.Fprintf(&sb, "(LIE %s@%s)", k.Lie.Class, k.Lie.Where)
		}
	}
	sb.WriteByte(']')
	return sb.String()
}

// C08 — exclusion patterns protect exactly what they name, in every exclusion-aware operation.
//
// Bounded-exhaustive enumeration on the real code of utils/filesystem (exclusion.go, files.go, zip.go):
//
//	trees      every tree of <= N entries (files, empty and non-empty directories), depth <= 3, sibling names
//	           distinct and drawn from {x, y, xy, yx, z}; plus the degenerate tree whose root is a file;
//	           rooted at <base>/r00t where <base> contains none of the characters x, y, z
//	patterns   every set of 0..K of the anchor-free expressions {x, y, xy, x.*, [xy], z|x, x.y}; and, for the
//	           rejection clause, lists that contain one of the invalid expressions {"(", "["} at every position
//	bound      quick:    N=4, K=2 (10 312 trees x 29 lists); invalid lists on trees of <= 3 entries
//	           thorough: N=4, K=3 (64 lists); every tree of exactly 5 entries with K=1 (85 032 trees x 8 lists);
//	                     over the names {x, xy, z} only: exactly 5 entries with K=3 and exactly 6 entries with K=1
//	           (large trees go with few patterns and many patterns with smaller trees: every case executes the real
//	           code, which compiles three expressions per pattern per call; N=6 x K=3 over five names is 10^8 cases)
//	operations Walk, Ls, LsRecursive (with / without directories), ListDirTree, SubDirectories,
//	           Copy (destination missing), Copy (destination exists), Zip, Remove, CleanDir  — all applied to the root
//	backends   filesystem.NewFs(InMemoryFS) and filesystem.NewFs(StandardFS) under /dev/shm/verif-c08-*
//
// Oracle (two-sided; what lies between the two sides is unspecified and is left alone):
//
//	MUST-SKIP  an entry whose own name, or the name of one of its ancestors below the root, is matched IN FULL
//	           (^(?:p)$) by some pattern. It must not be reported / copied / archived / deleted.
//	MUST-DO    an entry none of whose path components below the root CONTAINS a match (p, unanchored) of any
//	           pattern. It must be reported / copied / archived; for Remove and CleanDir it must be gone when,
//	           in addition, nothing beneath it is outside MUST-DO (a directory that shelters something the
//	           implementation may legitimately protect may legitimately survive).
//	middle     a component contains a match but no component is matched in full (name xy, pattern x): the
//	           implementation matches unanchored, the sentence says "matched in full": either behaviour is accepted.
//	invalid    a list with an expression that does not compile must make the operation fail with the kind
//	           commonerrors.ErrInvalid, the tree must be as it was, and nothing of the tree may have reached
//	           the destination.
//
// Readings taken (the weakest ones):
//   - "anchor-free regular expressions over name characters" (the quantifier of the property): ^ and $ are not part
//     of the alphabet (DESIGN.md lists ^x$ and x$; the implementation matches them against names in walk/list and
//     against absolute paths in copy, where they can never hit; the statement does not quantify over them).
//   - "before anything is touched" is read as "no entry of the tree is changed and no entry of the tree reaches the
//     destination": Zip creating an empty destination archive before it rejects the patterns is counted as an
//     observation (coverage.observations), not as a violation.
//   - for Ls and SubDirectories only entries directly below the root are in the domain; for LsRecursive without
//     directories only files; the root itself is never part of a reported set.
//   - whether an operation returns an error for VALID patterns is not asserted; only the sets are.
//   - entries reported that do not exist in the tree are ignored (faithfulness is C06/C07's subject).
//
// The pattern x.y is in the alphabet because it is anchor-free, is over name characters, and matches no name of the
// alphabet but does match across a separator ("x/y"): an operation that matches whole paths instead of names then
// skips an entry none of whose components contains a match. Such cases carry the flag "xsep" in their signature.
package c08

import (
	"archive/zip"
	"bytes"
	"context"
	"encoding/json"
	"fmt"
	"hash/fnv"
	"os"
	"os/exec"
	"path/filepath"
	"regexp"
	"sort"
	"strconv"
	"strings"
	"syscall"
	"testing"

	"github.com/ARM-software/golang-utils/utils/commonerrors"
	"github.com/ARM-software/golang-utils/utils/filesystem"

	ev "verif/engine/evidence"
)

func TestMain(m *testing.M) { ev.Main(m) }

// ---------------------------------------------------------------------------------------------------------------
// alphabet

var (
	allNames        = []string{"x", "y", "xy", "yx", "z"}
	smallNames      = []string{"x", "xy", "z"}
	validPatterns   = []string{"x", "y", "xy", "x.*", "[xy]", "z|x", "x.y"}
	invalidPatterns = []string{"(", "["}
)

const maxDepth = 3

type entry struct {
	Path string `json:"path"` // relative to the root, '/'-separated
	Dir  bool   `json:"dir"`
	Link bool   `json:"dangling_link,omitempty"` // a symbolic link whose target does not exist (OS backend only)
}

type tree struct {
	RootFile bool    `json:"root_is_file,omitempty"`
	Entries  []entry `json:"entries"`
}

func (t tree) String() string {
	if t.RootFile {
		return "<root is a file>"
	}
	var sb strings.Builder
	for i, e := range t.Entries {
		if i > 0 {
			sb.WriteByte(' ')
		}
		sb.WriteString(e.Path)
		if e.Dir {
			sb.WriteByte('/')
		}
		if e.Link {
			sb.WriteString("@")
		}
	}
	return "{" + sb.String() + "}"
}

// gen returns every forest below prefix that uses at most budget entries and at most depth levels;
// names are distinct among siblings; entries are in pre-order (a directory before its content).
func gen(prefix string, names, all []string, budget, depth int) [][]entry {
	if len(names) == 0 || budget == 0 {
		return [][]entry{nil}
	}
	p := prefix + names[0]
	rest := names[1:]
	var out [][]entry
	out = append(out, gen(prefix, rest, all, budget, depth)...) // name absent
	for _, r := range gen(prefix, rest, all, budget-1, depth) { // a file
		out = append(out, append([]entry{{Path: p}}, r...))
	}
	subs := [][]entry{nil} // a directory and its content
	if depth > 1 {
		subs = gen(p+"/", all, all, budget-1, depth-1)
	}
	for _, s := range subs {
		for _, r := range gen(prefix, rest, all, budget-1-len(s), depth) {
			e := make([]entry, 0, 1+len(s)+len(r))
			e = append(e, entry{Path: p, Dir: true})
			e = append(e, s...)
			e = append(e, r...)
			out = append(out, e)
		}
	}
	return out
}

// trees lists every tree with minEntries..maxEntries entries over names, smallest first, in a fixed order.
func trees(names []string, minEntries, maxEntries int) []tree {
	var out []tree
	for _, f := range gen("", names, names, maxEntries, maxDepth) {
		if len(f) >= minEntries {
			out = append(out, tree{Entries: f})
		}
	}
	sort.SliceStable(out, func(i, j int) bool {
		if len(out[i].Entries) != len(out[j].Entries) {
			return len(out[i].Entries) < len(out[j].Entries)
		}
		return out[i].String() < out[j].String()
	})
	return out
}

// wideTrees: directories of 300 entries (files at the root, files one level down, directories at the root); every 37th
// name contains an x.
func wideTrees() []tree {
	names := make([]string, 300)
	for i := range names {
		names[i] = fmt.Sprintf("e%03d", i)
		if i%37 == 5 {
			names[i] = fmt.Sprintf("x%03d", i)
		}
	}
	var flat, nested, dirs tree
	nested.Entries = append(nested.Entries, entry{Path: "e", Dir: true})
	for _, n := range names {
		flat.Entries = append(flat.Entries, entry{Path: n})
		nested.Entries = append(nested.Entries, entry{Path: "e/" + n})
		dirs.Entries = append(dirs.Entries, entry{Path: n, Dir: true})
	}
	return []tree{flat, nested, dirs}
}

// subsets of size 0..k of items, in a fixed order (by size, then lexicographic by index).
func subsets(items []string, k int) [][]string {
	out := [][]string{{}}
	var rec func(start int, cur []string, size int)
	rec = func(start int, cur []string, size int) {
		if len(cur) == size {
			out = append(out, append([]string(nil), cur...))
			return
		}
		for i := start; i < len(items); i++ {
			rec(i+1, append(cur, items[i]), size)
		}
	}
	for size := 1; size <= k; size++ {
		rec(0, nil, size)
	}
	return out
}

// invalidLists: pattern lists that contain an expression which does not compile, at every position.
func invalidLists(thorough bool) [][]string {
	var out [][]string
	valid := []string{"x", "[xy]"}
	for _, inv := range invalidPatterns {
		out = append(out, []string{inv})
		for _, v := range valid {
			out = append(out, []string{inv, v}, []string{v, inv})
		}
	}
	if thorough {
		out = append(out, []string{"(", "["}, []string{"[", "("})
		for _, inv := range invalidPatterns {
			out = append(out, []string{inv, "x", "z|x"}, []string{"x", inv, "z|x"}, []string{"x", "z|x", inv})
		}
	}
	return out
}

// ---------------------------------------------------------------------------------------------------------------
// the definition the oracle is computed from

const (
	clsDo   int8 = iota // no component contains a match
	clsMid              // some component contains a match, none is matched in full
	clsSkip             // some component is matched in full
)

type pset struct {
	pats   []string
	part   map[string]bool // name -> some pattern matches inside the name
	full   map[string]bool // name -> some pattern matches the whole name
	re     []*regexp.Regexp
	reFull []*regexp.Regexp
}

func newPset(pats []string) *pset {
	ps := &pset{pats: pats, part: map[string]bool{}, full: map[string]bool{}}
	for _, p := range pats {
		rp := regexp.MustCompile(p)
		rf := regexp.MustCompile("^(?:" + p + ")$")
		ps.re = append(ps.re, rp)
		ps.reFull = append(ps.reFull, rf)
	}
	return ps
}

// isPart / isFull: some pattern matches inside the name / matches the whole name (memoised per name).
func (ps *pset) isPart(n string) bool {
	v, ok := ps.part[n]
	if !ok {
		for _, r := range ps.re {
			v = v || r.MatchString(n)
		}
		ps.part[n] = v
	}
	return v
}

func (ps *pset) isFull(n string) bool {
	v, ok := ps.full[n]
	if !ok {
		for _, r := range ps.reFull {
			v = v || r.MatchString(n)
		}
		ps.full[n] = v
	}
	return v
}

// matchesAcrossSeparators: some pattern matches the '/'-joined relative path (used for the signature only).
func (ps *pset) matchesAcrossSeparators(rel string) bool {
	for _, r := range ps.re {
		if r.MatchString("/" + rel) {
			return true
		}
	}
	return false
}

type classified struct {
	cls        []int8
	selfFull   []bool // the entry's own name is matched in full
	depth      []int
	mustDelete []bool // MUST-DO and everything beneath is MUST-DO
	allDo      bool
}

func classify(t tree, ps *pset) classified {
	n := len(t.Entries)
	c := classified{cls: make([]int8, n), selfFull: make([]bool, n), depth: make([]int, n), mustDelete: make([]bool, n), allDo: true}
	for i, e := range t.Entries {
		comps := strings.Split(e.Path, "/")
		c.depth[i] = len(comps)
		cl := clsDo
		for _, k := range comps {
			if ps.isFull(k) {
				cl = clsSkip
				break
			}
			if ps.isPart(k) {
				cl = clsMid
			}
		}
		c.cls[i] = cl
		c.selfFull[i] = ps.isFull(comps[len(comps)-1])
		if cl != clsDo {
			c.allDo = false
		}
	}
	for i, e := range t.Entries {
		if c.cls[i] != clsDo {
			continue
		}
		ok := true
		if e.Dir {
			pre := e.Path + "/"
			for j := i + 1; j < n && strings.HasPrefix(t.Entries[j].Path, pre); j++ { // pre-order: content follows
				if c.cls[j] != clsDo {
					ok = false
					break
				}
			}
		}
		c.mustDelete[i] = ok
	}
	return c
}

// ---------------------------------------------------------------------------------------------------------------
// operations

type opID int

const (
	opWalk opID = iota
	opLs
	opLsRecDirs
	opLsRecFiles
	opListDirTree
	opSubDirs
	opCopy
	opCopyInto
	opZip
	opRemove
	opCleanDir
	opZipLimits // Zip with limits that apply: every entry that must be skipped is larger than the per-file limit
	opZipInside // Zip whose destination lies inside the tree being archived (<root>/0ut3.arc, removed again afterwards)
	nOps
)

var opNames = [...]string{"Walk", "Ls", "LsRecursive+dirs", "LsRecursive-dirs", "ListDirTree", "SubDirectories", "Copy", "CopyIntoExisting", "Zip", "Remove", "CleanDir", "ZipWithLimits", "ZipIntoTheTree"}

var opVerb = [...]string{"reported", "reported", "reported", "reported", "reported", "reported", "copied", "copied", "archived", "deleted", "deleted", "archived", "archived"}

func (o opID) destructive() bool { return o == opRemove || o == opCleanDir }

func opByName(s string) (opID, bool) {
	for i, n := range opNames {
		if n == s {
			return opID(i), true
		}
	}
	return 0, false
}

var nonDestructive = []opID{opWalk, opLs, opLsRecDirs, opLsRecFiles, opListDirTree, opSubDirs, opCopy, opCopyInto, opZip, opZipLimits, opZipInside}
var destructiveOps = []opID{opRemove, opCleanDir}
var rootFileOps = []opID{opWalk, opCopy, opRemove} // operations that make sense when the root is a file

func inDomain(op opID, e entry, depth int) bool {
	switch op {
	case opLs:
		return depth == 1
	case opSubDirs:
		return depth == 1 && e.Dir
	case opLsRecFiles:
		return !e.Dir
	}
	return true
}

// world is one sandbox: <base>/r00t (the tree), <base>/d3st (copy destination, missing), <base>/d3st2 (copy
// destination, existing), <base>/0ut.arc (archive). None of these paths contains x, y or z.
type world struct {
	backend string
	fs      filesystem.FS
	base    string
	big     map[string]bool // relative paths of the files written with more than bigFileLimit bytes
}

// bigFileLimit is the per-file limit of the ZipWithLimits operation: ordinary files of the harness are a few bytes
// long, the files that operation must skip are written larger than the limit.
const bigFileLimit = 16 * 1024 // (above the size a directory of a few hundred entries reports: the library also applies the limit to directories)

func (w *world) root() string { return filepath.Join(w.base, "r00t") }

func newWorld(backend, workerDir string) (*world, error) {
	switch backend {
	case "mem":
		w := &world{backend: backend, fs: filesystem.NewFs(filesystem.InMemoryFS), base: "/w0rk"}
		return w, w.fs.MkDir(w.base)
	default:
		w := &world{backend: backend, fs: osFS, base: filepath.Join(workerDir, "c")}
		if err := os.RemoveAll(w.base); err != nil {
			return nil, err
		}
		return w, os.Mkdir(w.base, 0o755)
	}
}

var osFS = filesystem.NewFs(filesystem.StandardFS)

// markBig: the files an operation must skip are written larger than the per-file limit of ZipWithLimits.
func (w *world) markBig(t tree, c classified) {
	w.big = map[string]bool{}
	for i, e := range t.Entries {
		if c.cls[i] == clsSkip && !e.Dir {
			w.big[e.Path] = true
		}
	}
}

func (w *world) contentOf(p string) []byte {
	c := []byte("content of " + filepath.Base(p))
	if rel, err := filepath.Rel(w.root(), p); err == nil && w.big[filepath.ToSlash(rel)] {
		c = append(c, bytes.Repeat([]byte{'.'}, bigFileLimit)...)
	}
	return c
}

func (w *world) build(t tree) error {
	root := w.root()
	mk := func(p string, dir bool) error {
		if w.backend == "mem" {
			if dir {
				return w.fs.MkDir(p)
			}
			return w.fs.WriteFile(p, w.contentOf(p), 0o644)
		}
		if dir {
			return os.Mkdir(p, 0o755)
		}
		return os.WriteFile(p, w.contentOf(p), 0o644)
	}
	if err := mk(filepath.Join(w.base, "d3st2"), true); err != nil {
		return err
	}
	if t.RootFile {
		return mk(root, false)
	}
	if err := mk(root, true); err != nil {
		return err
	}
	for _, e := range t.Entries {
		p := filepath.Join(root, filepath.FromSlash(e.Path))
		if e.Link {
			if err := os.Symlink(filepath.Join(w.base, "n0-such-target"), p); err != nil {
				return err
			}
			continue
		}
		if err := mk(p, e.Dir); err != nil {
			return err
		}
	}
	return nil
}

// snapshot lists what exists below dir without using any code of the exclusion mechanism:
// os.ReadDir on the OS backend, Lstat + GenericOpen/Readdirnames (thin wrappers of the afero calls) in memory.
// The result maps relative paths to "is a directory"; "" stands for dir itself.
func (w *world) snapshot(dir string) map[string]bool {
	out := map[string]bool{}
	var rec func(abs, rel string)
	rec = func(abs, rel string) {
		var isDir bool
		var names []string
		if w.backend == "mem" {
			fi, err := w.fs.Lstat(abs)
			if err != nil {
				return
			}
			isDir = fi.IsDir()
			if isDir {
				f, err := w.fs.GenericOpen(abs)
				if err == nil {
					names, _ = f.Readdirnames(-1)
					_ = f.Close()
				}
			}
		} else {
			fi, err := os.Lstat(abs)
			if err != nil {
				return
			}
			isDir = fi.IsDir()
			if isDir {
				des, _ := os.ReadDir(abs)
				for _, d := range des {
					names = append(names, d.Name())
				}
			}
		}
		out[rel] = isDir
		for _, n := range names {
			r := n
			if rel != "" {
				r = rel + "/" + n
			}
			rec(filepath.Join(abs, n), r)
		}
	}
	rec(dir, "")
	return out
}

func (w *world) readFile(p string) ([]byte, error) {
	if w.backend == "mem" {
		return w.fs.ReadFile(p)
	}
	return os.ReadFile(p)
}

type opResult struct {
	set     map[string]bool // relative paths reported / copied / archived; for Remove and CleanDir: what survives ("" = the root)
	err     error
	destArc bool // Zip: the destination file exists afterwards
	// the pattern list was handed over as a slice with spare capacity: something in the caller's array changed
	patsTouched string
}

// run executes one operation of the real code on the root of the world.
func (w *world) run(op opID, callerPats []string) (res opResult) {
	ctx := context.Background()
	root := w.root()
	res.set = map[string]bool{}
	// the caller's list sits in an array with room to spare: the callee gets a slice of it and must leave the array alone
	const spare = "\x00the caller's next pattern"
	full := append(append(make([]string, 0, len(callerPats)+2), callerPats...), spare, spare)
	pats := full[:len(callerPats):len(full)]
	defer func() {
		for i := range full {
			want := spare
			if i < len(callerPats) {
				want = callerPats[i]
			}
			if full[i] != want && res.patsTouched == "" {
				res.patsTouched = fmt.Sprintf("element %d of the caller's array (list of %d patterns, capacity %d) became %q", i, len(callerPats), len(full), full[i])
			}
		}
	}()
	addAbs := func(p string) {
		p = filepath.ToSlash(p)
		r := filepath.ToSlash(root)
		switch {
		case p == r:
		case strings.HasPrefix(p, r+"/"):
			res.set[p[len(r)+1:]] = true
		default:
			res.set["!outside:"+p] = true
		}
	}
	switch op {
	case opWalk:
		res.err = w.fs.WalkWithContextAndExclusionPatterns(ctx, root, func(p string, _ os.FileInfo, err error) error {
			if err != nil {
				return err
			}
			addAbs(p)
			return nil
		}, pats...)
	case opLs:
		var names []string
		names, res.err = w.fs.LsWithExclusionPatterns(root, pats...)
		for _, n := range names {
			res.set[n] = true
		}
	case opLsRecDirs, opLsRecFiles:
		var paths []string
		paths, res.err = w.fs.LsRecursiveWithExclusionPatterns(ctx, root, op == opLsRecDirs, pats...)
		for _, p := range paths {
			addAbs(p)
		}
	case opListDirTree:
		var list []string
		res.err = w.fs.ListDirTreeWithContextAndExclusionPatterns(ctx, root, &list, pats...)
		for _, p := range list {
			addAbs(p)
		}
	case opSubDirs:
		var names []string
		names, res.err = w.fs.SubDirectoriesWithContextAndExclusionPatterns(ctx, root, pats...)
		for _, n := range names {
			res.set[n] = true
		}
	case opCopy:
		dest := filepath.Join(w.base, "d3st")
		res.err = w.fs.CopyWithContextAndExclusionPatterns(ctx, root, dest, pats...)
		for p := range w.snapshot(dest) {
			if p != "" {
				res.set[p] = true
			}
		}
	case opCopyInto:
		dest := filepath.Join(w.base, "d3st2")
		res.err = w.fs.CopyWithContextAndExclusionPatterns(ctx, root, dest, pats...)
		for p := range w.snapshot(filepath.Join(dest, "r00t")) {
			if p != "" {
				res.set[p] = true
			}
		}
	case opZip, opZipLimits, opZipInside:
		dest := filepath.Join(w.base, "0ut.arc")
		if op == opZipLimits {
			dest = filepath.Join(w.base, "0ut2.arc") // not the archive the other zip operation of this world left
		}
		if op == opZipInside {
			dest = filepath.Join(root, "0ut3.arc")
			defer func() {
				_ = w.fs.Rm(dest) // the tree is the other operations' too
				delete(res.set, "0ut3.arc")
			}()
		}
		limits := filesystem.NoLimits()
		if op == opZipLimits {
			limits = filesystem.NewLimits(bigFileLimit, 1<<40, 1<<30, -1, false)
		}
		res.err = w.fs.ZipWithContextAndLimitsAndExclusionPatterns(ctx, root, dest, limits, pats...)
		if b, err := w.readFile(dest); err == nil {
			res.destArc = true
			if zr, err := zip.NewReader(bytes.NewReader(b), int64(len(b))); err == nil {
				for _, f := range zr.File {
					res.set[strings.TrimSuffix(filepath.ToSlash(f.Name), "/")] = true
				}
			}
		}
	case opRemove:
		res.err = w.fs.RemoveWithContextAndExclusionPatterns(ctx, root, pats...)
		res.set = present(w.snapshot(root))
	case opCleanDir:
		res.err = w.fs.CleanDirWithContextAndExclusionPatterns(ctx, root, pats...)
		res.set = present(w.snapshot(root))
	}
	return
}

// present turns a snapshot (path -> is a directory) into a set of existing paths.
func present(snap map[string]bool) map[string]bool {
	out := make(map[string]bool, len(snap))
	for p := range snap {
		out[p] = true
	}
	return out
}

func errKind(err error) string {
	switch {
	case err == nil:
		return "none"
	case commonerrors.Any(err, commonerrors.ErrInvalid):
		return "invalid"
	case commonerrors.Any(err, commonerrors.ErrNotFound):
		return "notfound"
	case commonerrors.Any(err, commonerrors.ErrExists):
		return "exists"
	case commonerrors.Any(err, commonerrors.ErrCancelled, commonerrors.ErrTimeout):
		return "cancelled"
	}
	return "other"
}

// ---------------------------------------------------------------------------------------------------------------
// cases, verdicts

type caseDesc struct {
	Mode     string   `json:"mode"` // "valid" | "invalid"
	Backend  string   `json:"backend"`
	Op       string   `json:"operation"`
	Tree     tree     `json:"tree"`
	Patterns []string `json:"patterns"`
	// History: pattern lists with which the same operation is applied (to a copy of the same tree) earlier in the same
	// process. Empty for almost every case: the property quantifies over single calls, whose outcome must not depend
	// on what the process did before; it is filled in when a verdict only shows after such an earlier call.
	History [][]string `json:"history,omitempty"`
	// filled in when a verdict is produced
	Clause   string   `json:"clause,omitempty"`
	Entry    string   `json:"entry,omitempty"`
	Observed []string `json:"observed,omitempty"`
	Error    string   `json:"error,omitempty"`
	Note     string   `json:"note,omitempty"`
}

type verdict struct {
	core   string // signature without the backend
	clause string
	entry  string
}

func sortedKeys(m map[string]bool) []string {
	out := make([]string, 0, len(m))
	for k := range m {
		if k == "" {
			k = "."
		}
		out = append(out, k)
	}
	sort.Strings(out)
	return out
}

// judgeValid applies the two-sided oracle to the result of one operation.
func judgeValid(op opID, t tree, ps *pset, c classified, r opResult) []verdict {
	var out []verdict
	errFlag := ""
	if r.err != nil {
		errFlag = ":err=" + errKind(r.err)
	}
	// the shallowest offending entry of each clause names the class
	bestSkip, bestDo := -1, -1
	better := func(i, best int) bool { return best < 0 || c.depth[i] < c.depth[best] }
	for i, e := range t.Entries {
		if !inDomain(op, e, c.depth[i]) {
			continue
		}
		in := r.set[e.Path]
		if op.destructive() {
			if c.cls[i] == clsSkip && !in && better(i, bestSkip) {
				bestSkip = i
			}
			if c.mustDelete[i] && in && better(i, bestDo) {
				bestDo = i
			}
		} else {
			if c.cls[i] == clsSkip && in && better(i, bestSkip) {
				bestSkip = i
			}
			if c.cls[i] == clsDo && !in && better(i, bestDo) {
				bestDo = i
			}
		}
	}
	if bestSkip >= 0 {
		hit := "beneath"
		if c.selfFull[bestSkip] {
			hit = "self"
		}
		cl := "excluded-" + opVerb[op]
		out = append(out, verdict{core: fmt.Sprintf("op=%s:clause=%s:hit=%s:depth=%d%s", opNames[op], cl, hit, c.depth[bestSkip], errFlag), clause: cl, entry: t.Entries[bestSkip].Path})
	}
	if bestDo >= 0 {
		cl := "unmatched-not-" + opVerb[op]
		if op.destructive() {
			cl = "unmatched-survived"
		}
		xsep := ""
		if ps.matchesAcrossSeparators(t.Entries[bestDo].Path) {
			xsep = ":xsep"
		}
		out = append(out, verdict{core: fmt.Sprintf("op=%s:clause=%s:depth=%d%s%s", opNames[op], cl, c.depth[bestDo], xsep, errFlag), clause: cl, entry: t.Entries[bestDo].Path})
	} else if op == opRemove && c.allDo && bestSkip < 0 {
		// nothing is protected: the root (whose own path contains no match) must be gone as well
		if _, exists := r.set[""]; exists {
			out = append(out, verdict{core: fmt.Sprintf("op=%s:clause=unmatched-survived:depth=0%s", opNames[op], errFlag), clause: "unmatched-survived", entry: "."})
		}
	}
	return out
}

func targetShape(t tree) string {
	switch {
	case t.RootFile:
		return "file"
	case len(t.Entries) == 0:
		return "emptydir"
	}
	return "dir"
}

// treeIntact: the snapshot of the root is exactly the tree that was built.
func treeIntact(t tree, snap map[string]bool) bool {
	isDir, ok := snap[""]
	if !ok || isDir == t.RootFile {
		return false
	}
	if len(snap) != len(t.Entries)+1 {
		return false
	}
	for _, e := range t.Entries {
		if d, ok := snap[e.Path]; !ok || d != e.Dir {
			return false
		}
	}
	return true
}

// judgeInvalid: the operation must fail with the kind "invalid", the tree must be intact, nothing transferred.
func judgeInvalid(op opID, t tree, r opResult, rootAfter map[string]bool) []verdict {
	touched := !treeIntact(t, rootAfter)
	if !op.destructive() && len(r.set) > 0 && (op == opCopy || op == opCopyInto || op == opZip || op == opZipLimits || op == opZipInside) {
		touched = true
	}
	yn := map[bool]string{true: "yes", false: "no"}
	rejected := r.err != nil && commonerrors.Any(r.err, commonerrors.ErrInvalid)
	switch {
	case !rejected:
		// the shape of the target (file / empty directory / directory) is kept in the stored case, not in the signature:
		// one cause (a call path that never compiles the patterns) shows on several shapes
		return []verdict{{core: fmt.Sprintf("op=%s:clause=invalid-pattern-not-rejected:touched=%s:err=%s", opNames[op], yn[touched], errKind(r.err)), clause: "invalid-pattern-not-rejected", entry: "target is a " + targetShape(t)}}
	case touched:
		return []verdict{{core: fmt.Sprintf("op=%s:clause=invalid-pattern-rejected-after-touching", opNames[op]), clause: "invalid-pattern-rejected-after-touching", entry: "target is a " + targetShape(t)}}
	}
	return nil
}

// ---------------------------------------------------------------------------------------------------------------
// bookkeeping shared by the workers

type violAgg struct {
	Count  map[string]int64 `json:"count"` // backend -> cases
	Key    [4]int           `json:"key"`   // smallest (backend, group, tree, pattern list) seen: makes the stored replay deterministic
	Replay caseDesc         `json:"replay"`
}

// shardResult is what one worker process hands back to the coordinating process.
type shardResult struct {
	Evaluations   int64               `json:"evaluations"`
	Nontrivial    int64               `json:"nontrivial"`
	PerOp         [nOps]int64         `json:"per_op"`
	PerOpNontriv  [nOps]int64         `json:"per_op_nontrivial"`
	SkipAtDepth   [maxDepth + 1]int64 `json:"skip_at_depth"`
	MiddleKept    int64               `json:"middle_kept"`
	MiddleSkipped int64               `json:"middle_skipped"`
	ErrorsValid   int64               `json:"errors_valid"`
	InvalidEvals  int64               `json:"invalid_evals"`
	ZipLeftArc    int64               `json:"zip_left_arc"`
	Pairs         int64               `json:"pairs"`
	PerOpOutcomes [nOps][]uint64      `json:"per_op_outcomes"`
	Viols         map[string]*violAgg `json:"violations"`
	Samples       map[string]any      `json:"samples"`
	Errors        []string            `json:"errors"`
	CPUSeconds    float64             `json:"cpu_s"`
}

type stats struct {
	evaluations   int64
	nontrivial    int64
	perOp         [nOps]int64
	perOpNontriv  [nOps]int64
	skipAtDepth   [maxDepth + 1]int64 // cases whose shallowest MUST-SKIP entry of the domain sits at this depth
	middleKept    int64               // entries of the unspecified middle that the operation processed
	middleSkipped int64               // ... that it left alone
	errorsValid   int64               // operations that returned an error although every pattern compiles
	invalidEvals  int64
	zipLeftArc    int64 // observation: Zip left a destination archive behind after rejecting the patterns
	pairs         int64
	perOpOutcomes [nOps]map[uint64]struct{}
}

func newStats() *stats {
	s := &stats{}
	for i := range s.perOpOutcomes {
		s.perOpOutcomes[i] = map[uint64]struct{}{}
	}
	return s
}

type checker struct {
	viols map[string]*violAgg
	samp  map[string]any
	errs  []string
}

func (ck *checker) engineError(format string, a ...any) {
	if len(ck.errs) < 20 {
		ck.errs = append(ck.errs, fmt.Sprintf(format, a...))
	}
}

func (ck *checker) record(v verdict, cd caseDesc, key [4]int, r opResult) {
	a := ck.viols[v.core]
	if a == nil {
		a = &violAgg{Count: map[string]int64{}, Key: [4]int{1 << 30}}
		ck.viols[v.core] = a
	}
	a.Count[cd.Backend]++
	if lessKey(key, a.Key) {
		a.Key = key
		cd.Clause, cd.Entry, cd.Observed = v.clause, v.entry, sortedKeys(r.set)
		if r.err != nil {
			cd.Error = r.err.Error()
		}
		a.Replay = cd
	}
}

func lessKey(a, b [4]int) bool {
	for i := range a {
		if a[i] != b[i] {
			return a[i] < b[i]
		}
	}
	return false
}

func outcomeHash(op opID, mode string, r opResult) uint64 {
	h := fnv.New64a()
	fmt.Fprintf(h, "%d|%s|%s|", op, mode, errKind(r.err))
	for _, k := range sortedKeys(r.set) {
		h.Write([]byte(k))
		h.Write([]byte{0})
	}
	return h.Sum64()
}

// runCase executes one (tree, pattern list, operation) on a fresh world and returns the verdicts.
func runCase(backend, workerDir, mode string, t tree, pats []string, op opID) (opResult, []verdict, error) {
	w, err := newWorld(backend, workerDir)
	if err != nil {
		return opResult{}, nil, err
	}
	if mode == "valid" {
		w.markBig(t, classify(t, newPset(pats)))
	}
	if err := w.build(t); err != nil {
		return opResult{}, nil, err
	}
	r := w.run(op, pats)
	var touched []verdict
	if r.patsTouched != "" {
		touched = []verdict{{core: fmt.Sprintf("op=%s:clause=callers-pattern-array-modified", opNames[op]), clause: "callers-pattern-array-modified", entry: r.patsTouched}}
	}
	if mode == "invalid" {
		return r, append(judgeInvalid(op, t, r, w.snapshot(w.root())), touched...), nil
	}
	ps := newPset(pats)
	vs := judgeValid(op, t, ps, classify(t, ps), r)
	if !op.destructive() {
		vs = append(vs, sourceVerdicts(op, t, classify(t, ps), w.snapshot(w.root()))...)
	}
	return r, append(vs, touched...), nil
}

// sourceVerdicts: a non-destructive operation must not delete a protected entry of the source either.
func sourceVerdicts(op opID, t tree, c classified, snap map[string]bool) []verdict {
	for i, e := range t.Entries {
		if _, ok := snap[e.Path]; !ok && c.cls[i] == clsSkip {
			return []verdict{{core: fmt.Sprintf("op=%s:clause=excluded-deleted-from-source:depth=%d", opNames[op], c.depth[i]), clause: "excluded-deleted-from-source", entry: e.Path}}
		}
	}
	return nil
}

// ---------------------------------------------------------------------------------------------------------------
// the enumeration

type group struct {
	name   string
	osOnly bool // the trees contain symbolic links
	mode   string
	trees  []tree
	lists  [][]string
	psets  []*pset // valid mode only
}

type job struct {
	backend int
	group   int
	lo, hi  int // tree indices
}

var backends = []string{"mem", "os"}

// runShard is the body of one worker process: it takes every n-th job.
func runShard(shard, n int, groups []group, jobs []job) (res shardResult) {
	ck := &checker{viols: map[string]*violAgg{}, samp: map[string]any{}}
	st := newStats()
	workerDir, err := os.MkdirTemp("/dev/shm", "verif-c08-")
	if err != nil || strings.ContainsAny(workerDir, "xyz") {
		res.Errors = []string{fmt.Sprintf("no usable directory under /dev/shm: %q %v", workerDir, err)}
		return
	}
	defer os.RemoveAll(workerDir)
	for j := shard; j < len(jobs); j += n {
		jb := jobs[j]
		g := &groups[jb.group]
		backend := backends[jb.backend]
		for ti := jb.lo; ti < jb.hi; ti++ {
			t := g.trees[ti]
			for pi, pats := range g.lists {
				key := [4]int{jb.backend, jb.group, ti, pi}
				ck.pair(backend, workerDir, g, t, ti, pi, pats, key, st)
			}
		}
	}
	res = shardResult{Evaluations: st.evaluations, Nontrivial: st.nontrivial, PerOp: st.perOp, PerOpNontriv: st.perOpNontriv, SkipAtDepth: st.skipAtDepth,
		MiddleKept: st.middleKept, MiddleSkipped: st.middleSkipped, ErrorsValid: st.errorsValid, InvalidEvals: st.invalidEvals, ZipLeftArc: st.zipLeftArc,
		Pairs: st.pairs, Viols: ck.viols, Samples: ck.samp, Errors: ck.errs}
	for i := range st.perOpOutcomes {
		for h := range st.perOpOutcomes[i] {
			res.PerOpOutcomes[i] = append(res.PerOpOutcomes[i], h)
		}
	}
	var ru syscall.Rusage
	if syscall.Getrusage(syscall.RUSAGE_SELF, &ru) == nil {
		res.CPUSeconds = float64(ru.Utime.Sec+ru.Stime.Sec) + float64(ru.Utime.Usec+ru.Stime.Usec)/1e6
	}
	return
}

// pair runs every operation for one (tree, pattern list): the non-destructive ones share one world
// (their destinations are outside the tree), each destructive one gets a fresh world.
func (ck *checker) pair(backend, workerDir string, g *group, t tree, ti, pi int, pats []string, key [4]int, st *stats) {
	defer func() {
		if p := recover(); p != nil {
			// a tree and a pattern list must never bring the caller down
			ck.record(verdict{core: "panic:mode=" + g.mode, clause: "panic", entry: fmt.Sprint(p)}, caseDesc{Mode: g.mode, Backend: backend, Op: "Walk", Tree: t, Patterns: pats, Note: "some operation of this (tree, pattern list) panicked: " + fmt.Sprint(p)}, key, opResult{})
		}
	}()
	st.pairs++
	var c classified
	var ps *pset
	if g.mode == "valid" {
		ps = g.psets[pi]
		c = classify(t, ps)
	}
	ops1, ops2 := nonDestructive, destructiveOps
	if t.RootFile {
		ops1, ops2 = []opID{opWalk, opCopy}, []opID{opRemove}
	}
	sample := ck.wantSample(g, ti, pi, backend)
	var sampleOut map[string]any
	if sample {
		sampleOut = map[string]any{}
	}
	account := func(op opID, r opResult, vs []verdict) {
		st.evaluations++
		st.perOp[op]++
		st.perOpOutcomes[op][outcomeHash(op, g.mode, r)] = struct{}{}
		if g.mode == "valid" {
			nontrivial := false
			shallowSkip := 0
			for i, e := range t.Entries {
				if !inDomain(op, e, c.depth[i]) {
					continue
				}
				switch c.cls[i] {
				case clsSkip:
					nontrivial = true
					if shallowSkip == 0 || c.depth[i] < shallowSkip {
						shallowSkip = c.depth[i]
					}
				case clsMid:
					nontrivial = true
					if r.set[e.Path] != op.destructive() {
						st.middleKept++
					} else {
						st.middleSkipped++
					}
				}
			}
			if nontrivial {
				st.nontrivial++
				st.perOpNontriv[op]++
			}
			st.skipAtDepth[shallowSkip]++
			if r.err != nil {
				st.errorsValid++
			}
		} else {
			st.invalidEvals++
			st.nontrivial++ // every case of this group reaches the validation of the patterns
			st.perOpNontriv[op]++
			if (op == opZip || op == opZipLimits || op == opZipInside) && r.destArc {
				st.zipLeftArc++
			}
		}
		for _, v := range vs {
			ck.record(v, caseDesc{Mode: g.mode, Backend: backend, Op: opNames[op], Tree: t, Patterns: pats}, key, r)
		}
		if sample {
			sampleOut[opNames[op]] = map[string]any{"result": sortedKeys(r.set), "error_kind": errKind(r.err), "verdicts": len(vs)}
		}
	}

	w, err := newWorld(backend, workerDir)
	if err == nil {
		if g.mode == "valid" {
			w.markBig(t, c)
		}
		err = w.build(t)
	}
	if err != nil {
		ck.engineError("cannot build %s on %s: %v", t, backend, err)
		return
	}
	results := make([]opResult, 0, len(ops1))
	for _, op := range ops1 {
		results = append(results, w.run(op, pats))
	}
	after := w.snapshot(w.root())
	intact := treeIntact(t, after)
	for k, op := range ops1 {
		var vs []verdict
		if g.mode == "valid" {
			vs = judgeValid(op, t, ps, c, results[k])
		} else if intact {
			vs = judgeInvalid(op, t, results[k], after)
		}
		if !intact {
			// some operation of the shared world changed the source: attribute it by running this one alone
			r2, vs2, err := runCase(backend, workerDir, g.mode, t, pats, op)
			if err != nil {
				ck.engineError("re-run of %s failed: %v", opNames[op], err)
				continue
			}
			results[k], vs = r2, vs2
		} else if results[k].patsTouched != "" {
			vs = append(vs, verdict{core: fmt.Sprintf("op=%s:clause=callers-pattern-array-modified", opNames[op]), clause: "callers-pattern-array-modified", entry: results[k].patsTouched})
		}
		account(op, results[k], vs)
	}
	for _, op := range ops2 {
		r, vs, err := runCase(backend, workerDir, g.mode, t, pats, op)
		if err != nil {
			ck.engineError("cannot build %s on %s: %v", t, backend, err)
			continue
		}
		account(op, r, vs)
	}
	if sample {
		desc := map[string]any{"group": g.name, "backend": backend, "tree": t.String(), "patterns": pats, "operations": sampleOut}
		if g.mode == "valid" {
			var skip, do, mid []string
			for i, e := range t.Entries {
				switch c.cls[i] {
				case clsSkip:
					skip = append(skip, e.Path)
				case clsDo:
					do = append(do, e.Path)
				default:
					mid = append(mid, e.Path)
				}
			}
			desc["must_skip"], desc["must_do"], desc["unspecified"] = skip, do, mid
		}
		ck.samp[fmt.Sprintf("%s/%s/%06d/%03d", g.name, backend, ti, pi)] = desc
	}
}

// wantSample picks a few cases to be written out in the evidence (a fixed rule, independent of scheduling).
func (ck *checker) wantSample(g *group, ti, pi int, backend string) bool {
	n := len(g.trees)
	switch g.mode {
	case "valid":
		if !strings.HasPrefix(g.name, "valid/entries<=4") || len(g.lists) < 12 || n < 10 {
			return false
		}
		return (backend == "mem" && ti == n-1 && pi == 11) || (backend == "os" && ti == n/2 && pi == 5) || (backend == "mem" && ti == n/3 && pi == 8)
	default:
		return backend == "os" && ti == n-1 && pi == 1
	}
}

// runWithHistory applies the operation with each pattern list of cd.History to a fresh copy of the tree, then runs the case.
func runWithHistory(cd caseDesc, dir string) (opResult, []verdict, error) {
	op, _ := opByName(cd.Op)
	for _, h := range cd.History {
		w, err := newWorld(cd.Backend, dir)
		if err != nil {
			return opResult{}, nil, err
		}
		if err := w.build(cd.Tree); err != nil {
			return opResult{}, nil, err
		}
		_ = w.run(op, h)
	}
	return runCase(cd.Backend, dir, cd.Mode, cd.Tree, cd.Patterns, op)
}

// probe (env VERIF_C08_PROBE=<file with a caseDesc>): runs the case with its history in this fresh process and prints the
// cores of the verdicts. Used by the parent to find out whether a verdict that does not show on a single call depends on
// an earlier call of the same process.
func probe(path string) {
	var cd caseDesc
	b, err := os.ReadFile(path)
	if err == nil {
		err = json.Unmarshal(b, &cd)
	}
	if err != nil {
		fmt.Printf("PROBE-ERROR %v\n", err)
		return
	}
	dir, err := os.MkdirTemp("/dev/shm", "verif-c08-probe-")
	if err != nil {
		fmt.Printf("PROBE-ERROR %v\n", err)
		return
	}
	defer os.RemoveAll(dir)
	_, vs, err := runWithHistory(cd, dir)
	if err != nil {
		fmt.Printf("PROBE-ERROR %v\n", err)
		return
	}
	for _, v := range vs {
		fmt.Printf("PROBE-CORE %s\n", v.core)
	}
	fmt.Println("PROBE-DONE")
}

// probeInFreshProcess says whether the case, preceded by its history, yields the verdict `core` in a fresh process.
func probeInFreshProcess(cd caseDesc, core, dir string) (bool, error) {
	f := filepath.Join(dir, "probe.json")
	b, _ := json.Marshal(cd)
	if err := os.WriteFile(f, b, 0o644); err != nil {
		return false, err
	}
	cmd := exec.Command(os.Args[0], "-test.run", "^TestC08$")
	cmd.Env = append(os.Environ(), "VERIF_C08_PROBE="+f, "GOMAXPROCS=1")
	out, err := cmd.CombinedOutput()
	if !strings.Contains(string(out), "PROBE-DONE") {
		return false, fmt.Errorf("probe process: %v: %s", err, out)
	}
	return strings.Contains(string(out), "PROBE-CORE "+core+"\n"), nil
}

func TestC08(t *testing.T) {
	if p := os.Getenv("VERIF_C08_PROBE"); p != "" {
		probe(p)
		return
	}
	if p := os.Getenv("VERIF_REPLAY"); p != "" {
		replay(p)
		return
	}

	// ---- the bound: groups of (trees x pattern lists); every group is enumerated completely.
	// Large trees are paired with few patterns and many patterns with smaller trees (the product of the two
	// maxima costs hours: every case runs the real code, which compiles three expressions per pattern per call).
	thorough := ev.Thorough()
	type groupSpec struct {
		Name        string   `json:"group"`
		Mode        string   `json:"patterns"`
		Names       []string `json:"names"`
		MinEntries  int      `json:"entries_min"`
		MaxEntries  int      `json:"entries_max"`
		MaxPatterns int      `json:"patterns_per_list_max"`
		RootFile    bool     `json:"plus_root_is_a_file"`
		Trees       int      `json:"trees"`
		Lists       int      `json:"pattern_lists"`
	}
	specs := []groupSpec{
		{Name: "valid/entries<=4/patterns<=2", Mode: "valid", Names: allNames, MinEntries: 0, MaxEntries: 4, MaxPatterns: 2, RootFile: true},
		{Name: "invalid/entries<=3", Mode: "invalid", Names: allNames, MinEntries: 0, MaxEntries: 3, RootFile: true},
	}
	if thorough {
		specs = []groupSpec{
			{Name: "valid/entries<=4/patterns<=3", Mode: "valid", Names: allNames, MinEntries: 0, MaxEntries: 4, MaxPatterns: 3, RootFile: true},
			{Name: "valid/entries=5/patterns<=1", Mode: "valid", Names: allNames, MinEntries: 5, MaxEntries: 5, MaxPatterns: 1},
			{Name: "valid/entries=5/names=x,xy,z/patterns<=3", Mode: "valid", Names: smallNames, MinEntries: 5, MaxEntries: 5, MaxPatterns: 3},
			{Name: "valid/entries=6/names=x,xy,z/patterns<=1", Mode: "valid", Names: smallNames, MinEntries: 6, MaxEntries: 6, MaxPatterns: 1},
			{Name: "invalid/entries<=3", Mode: "invalid", Names: allNames, MinEntries: 0, MaxEntries: 3, RootFile: true},
		}
	}
	var groups []group
	psetCache := map[string]*pset{}
	for k := range specs {
		sp := &specs[k]
		g := group{name: sp.Name, mode: sp.Mode}
		if sp.RootFile {
			g.trees = append(g.trees, tree{RootFile: true})
		}
		g.trees = append(g.trees, trees(sp.Names, sp.MinEntries, sp.MaxEntries)...)
		if sp.Mode == "valid" {
			g.lists = subsets(validPatterns, sp.MaxPatterns)
			for _, l := range g.lists {
				key := strings.Join(l, "\x00")
				if psetCache[key] == nil {
					psetCache[key] = newPset(l)
				}
				g.psets = append(g.psets, psetCache[key])
			}
		} else {
			g.lists = invalidLists(thorough)
		}
		sp.Trees, sp.Lists = len(g.trees), len(g.lists)
		groups = append(groups, g)
	}
	// wide directories: more entries than any batch a listing could be read in (a few hundred), excluded names spread
	// over the whole directory order; at the root, one level down, and as directories
	{
		wide := group{name: "valid/wide-directories(300 entries)", mode: "valid", trees: wideTrees()}
		wide.lists = [][]string{{}, {"x"}, {"y"}, {"x", "y"}, {"[xy]"}}
		for _, l := range wide.lists {
			key := strings.Join(l, "\x00")
			if psetCache[key] == nil {
				psetCache[key] = newPset(l)
			}
			wide.psets = append(wide.psets, psetCache[key])
		}
		groups = append(groups, wide)
		specs = append(specs, groupSpec{Name: wide.name, Mode: "valid", Names: []string{"e000..e299", "x<k> every 37th"}, MinEntries: 300, MaxEntries: 301, MaxPatterns: 2, Trees: len(wide.trees), Lists: len(wide.lists)})
	}
	// two more patterns, each paired with every pattern of the alphabet, on the trees of at most 3 entries: an alternation whose
	// first branch is a prefix of the second (the leftmost match is not the longest), and a pattern with a blank in it
	// (matches no name; as text, the list {"x y"} reads like the list {"x", "y"})
	{
		extra := []string{"x|xy", "x y"}
		eg := group{name: "valid/entries<=3/prefix-alternation-and-blank", mode: "valid", trees: trees(allNames, 0, 3)}
		for i, e := range extra {
			eg.lists = append(eg.lists, []string{e})
			for _, v := range validPatterns {
				eg.lists = append(eg.lists, []string{e, v}, []string{v, e})
			}
			for _, e2 := range extra[i+1:] {
				eg.lists = append(eg.lists, []string{e, e2})
			}
		}
		eg.lists = append(eg.lists, []string{"x", "y"}, []string{"x", "xy"}) // after the lists they could be mistaken for
		for _, l := range eg.lists {
			key := strings.Join(l, "\x00")
			if psetCache[key] == nil {
				psetCache[key] = newPset(l)
			}
			eg.psets = append(eg.psets, psetCache[key])
		}
		groups = append(groups, eg)
		specs = append(specs, groupSpec{Name: eg.name, Mode: "valid", Names: allNames, MaxEntries: 3, MaxPatterns: 2, Trees: len(eg.trees), Lists: len(eg.lists)})
		// patterns that match no name of the alphabet but do match the names implementations give their scratch files
		// (".partial", ".tmp", ".temp", ".bak", ".new", ".orig", ".staging", "~"): every entry is to be processed
		sg := group{name: "valid/entries<=3/patterns-matching-scratch-suffixes-only", mode: "valid", trees: trees(allNames, 0, 3)}
		// (only letters that occur in no name of the sandbox either: its paths are made of /dev/shm/verif-c08-<digits>/c, /w0rk,
		// r00t, d3st, d3st2, 0ut.arc ...)
		for _, e := range []string{"p", "l", "b", "n", "g", "~", "p|l", "[bn]"} {
			sg.lists = append(sg.lists, []string{e})
		}
		for _, l := range sg.lists {
			key := strings.Join(l, "\x00")
			if psetCache[key] == nil {
				psetCache[key] = newPset(l)
			}
			sg.psets = append(sg.psets, psetCache[key])
		}
		groups = append(groups, sg)
		specs = append(specs, groupSpec{Name: sg.name, Mode: "valid", Names: allNames, MaxEntries: 3, MaxPatterns: 1, Trees: len(sg.trees), Lists: len(sg.lists)})
		// an excluded entry that cannot be stat'ed: a dangling symbolic link named x among ordinary entries (OS backend)
		lg := group{name: "valid/excluded-dangling-link", mode: "valid", osOnly: true, lists: [][]string{{"x"}, {"x", "y"}, {"[xy]"}}}
		lg.trees = []tree{
			{Entries: []entry{{Path: "x", Link: true}, {Path: "z"}}},
			{Entries: []entry{{Path: "a0"}, {Path: "x", Link: true}, {Path: "z", Dir: true}, {Path: "z/z"}}},
			{Entries: []entry{{Path: "z", Dir: true}, {Path: "z/a0"}, {Path: "z/x", Link: true}, {Path: "z/z"}, {Path: "zz"}}},
		}
		for _, l := range lg.lists {
			key := strings.Join(l, "\x00")
			if psetCache[key] == nil {
				psetCache[key] = newPset(l)
			}
			lg.psets = append(lg.psets, psetCache[key])
		}
		groups = append(groups, lg)
		specs = append(specs, groupSpec{Name: lg.name, Mode: "valid", Names: []string{"a0", "x@ (dangling link)", "z", "zz"}, MaxEntries: 5, MaxPatterns: 2, Trees: len(lg.trees), Lists: len(lg.lists)})
	}
	exhaustive := true
	if n, _ := strconv.Atoi(os.Getenv("VERIF_C08_MAXTREES")); n > 0 { // development aid (profiling): never set by a registered command
		exhaustive = false
		for i := range groups {
			if len(groups[i].trees) > n {
				groups[i].trees = groups[i].trees[len(groups[i].trees)-n:]
			}
		}
	}
	var jobs []job
	const chunk = 8
	for gi, g := range groups {
		for b := range backends {
			if g.osOnly && backends[b] != "os" {
				continue
			}
			if only := os.Getenv("VERIF_C08_BACKEND"); only != "" && only != backends[b] { // development aid (profiling)
				exhaustive = false
				continue
			}
			for lo := 0; lo < len(g.trees); lo += chunk {
				hi := lo + chunk
				if hi > len(g.trees) {
					hi = len(g.trees)
				}
				jobs = append(jobs, job{backend: b, group: gi, lo: lo, hi: hi})
			}
		}
	}
	// ---- run: one worker process per core (GOMAXPROCS=1 each), job j goes to worker j mod n
	results, isWorker := ev.Sharded(t, ev.Workers(), func(shard, n int) shardResult { return runShard(shard, n, groups, jobs) })
	if isWorker {
		return
	}
	rep := ev.NewReporter("C08", "exploration")
	shm, err := os.MkdirTemp("/dev/shm", "verif-c08-")
	if err != nil {
		rep.EngineError("no directory under /dev/shm: %v", err)
	}
	defer os.RemoveAll(shm)

	// ---- merge
	var tot shardResult
	outcomes := [nOps]map[uint64]struct{}{}
	for i := range outcomes {
		outcomes[i] = map[uint64]struct{}{}
	}
	viols := map[string]*violAgg{}
	samp := map[string]any{}
	for _, r := range results {
		tot.Evaluations += r.Evaluations
		tot.Nontrivial += r.Nontrivial
		tot.MiddleKept += r.MiddleKept
		tot.MiddleSkipped += r.MiddleSkipped
		tot.ErrorsValid += r.ErrorsValid
		tot.InvalidEvals += r.InvalidEvals
		tot.ZipLeftArc += r.ZipLeftArc
		tot.Pairs += r.Pairs
		tot.CPUSeconds += r.CPUSeconds
		for i := range r.PerOp {
			tot.PerOp[i] += r.PerOp[i]
			tot.PerOpNontriv[i] += r.PerOpNontriv[i]
			for _, h := range r.PerOpOutcomes[i] {
				outcomes[i][h] = struct{}{}
			}
		}
		for i := range r.SkipAtDepth {
			tot.SkipAtDepth[i] += r.SkipAtDepth[i]
		}
		for _, e := range r.Errors {
			rep.EngineError("%s", e)
		}
		for k, v := range r.Samples {
			samp[k] = v
		}
		for core, a := range r.Viols {
			m := viols[core]
			if m == nil {
				viols[core] = a
				continue
			}
			for b, n := range a.Count {
				m.Count[b] += n
			}
			if lessKey(a.Key, m.Key) {
				m.Key, m.Replay = a.Key, a.Replay
			}
		}
	}
	distinctOutcomes := 0
	for i := range outcomes {
		distinctOutcomes += len(outcomes[i])
	}

	// ---- violations: every stored case is replayed 5 times on a fresh world before it is believed
	historySearches := 0
	var foundHistories [][]string
	cores := make([]string, 0, len(viols))
	for c := range viols {
		cores = append(cores, c)
	}
	sort.Strings(cores)
	for _, core := range cores {
		a := viols[core]
		be := "both"
		var n int64
		for b, k := range a.Count {
			n += k
			if len(a.Count) == 1 {
				be = b
			}
		}
		sig := core + ":backend=" + be
		op, _ := opByName(a.Replay.Op)
		stable := true
		for k := 0; k < 5; k++ {
			_, vs, err := runCase(a.Replay.Backend, shm, a.Replay.Mode, a.Replay.Tree, a.Replay.Patterns, op)
			found := false
			for _, v := range vs {
				if v.core == core {
					found = true
				}
			}
			if err != nil || !found {
				stable = false
			}
		}
		if !stable {
			// The verdict was produced in a worker that had made other calls before and does not show on a single call
			// in this process: does it depend on an earlier call? Search the pattern lists of the run for one that,
			// used first in a fresh process, makes the verdict appear (every candidate in its own process, 3 times).
			var hist [][]string
			try := func(h []string) bool {
				if strings.Join(h, "\x00") == strings.Join(a.Replay.Patterns, "\x00") {
					return false
				}
				cd := a.Replay
				cd.History = [][]string{h}
				for k := 0; k < 3; k++ {
					if ok, err := probeInFreshProcess(cd, core, shm); err != nil || !ok {
						return false
					}
				}
				hist = cd.History
				return true
			}
			for _, h := range foundHistories { // what explained another verdict first
				if try(h) {
					break
				}
			}
			if hist == nil && historySearches < 6 {
				historySearches++
				for _, g := range groups {
					for _, h := range g.lists {
						if hist == nil && try(h) {
							foundHistories = append(foundHistories, h)
						}
					}
				}
			}
			if hist == nil {
				rep.EngineError("case for %s did not reproduce 5 times out of 5 and no earlier call that makes it appear was found: %+v", sig, a.Replay)
				continue
			}
			a.Replay.History = hist
			a.Replay.Note = "the verdict shows only when the same process has applied the operation with the pattern lists of 'history' before: VERIF_REPLAY re-runs history, then the case"
			rep.ViolationN(core+":depends-on-earlier-call:backend="+be, a.Replay, n)
			continue
		}
		a.Replay.Note = "VERIF_REPLAY re-runs this case: the operation is applied to <base>/r00t holding the tree, with the patterns"
		rep.ViolationN(sig, a.Replay, n)
	}

	// ---- evidence
	perOp := map[string]any{}
	for i := 0; i < int(nOps); i++ {
		perOp[opNames[i]] = map[string]any{"evaluations": tot.PerOp[i], "nontrivial": tot.PerOpNontriv[i], "distinct_outcomes": len(outcomes[i])}
	}
	keys := make([]string, 0, len(samp))
	for k := range samp {
		keys = append(keys, k)
	}
	sort.Strings(keys)
	samples := []any{}
	for _, k := range keys {
		samples = append(samples, samp[k])
	}
	rep.Coverage["evaluations"] = tot.Evaluations
	rep.Coverage["distinct_nontrivial"] = tot.Nontrivial
	rep.Coverage["rule"] = "a case is one (backend, tree, pattern list, operation), each enumerated exactly once; it is non-trivial when, with valid patterns, some entry in the operation's domain has a path component that contains a match of some pattern (the filter had to exclude it, or it lies in the unspecified middle), and, with an invalid pattern list, always (the case reaches the validation of the patterns)"
	rep.Coverage["exhaustive"] = exhaustive
	rep.Coverage["bound"] = map[string]any{"depth_max": maxDepth, "groups": specs, "operations": opNames[:], "applied_to": "the root of the tree"}
	rep.Coverage["names"] = allNames
	rep.Coverage["patterns_valid"] = validPatterns
	rep.Coverage["patterns_invalid"] = invalidPatterns
	rep.Coverage["backends"] = backends
	rep.Coverage["per_operation"] = perOp
	rep.Coverage["distinct_outcomes"] = distinctOutcomes
	rep.Coverage["tree_x_pattern_list_x_backend_combinations"] = tot.Pairs
	rep.Coverage["cpu_seconds_of_the_workers"] = int64(tot.CPUSeconds)
	rep.Coverage["cases_by_depth_of_shallowest_must_skip_entry"] = map[string]int64{"none": tot.SkipAtDepth[0], "1": tot.SkipAtDepth[1], "2": tot.SkipAtDepth[2], "3": tot.SkipAtDepth[3]}
	rep.Coverage["observations"] = map[string]any{
		"unspecified_middle_entries_processed":                    tot.MiddleKept,
		"unspecified_middle_entries_left_alone":                   tot.MiddleSkipped,
		"operations_returning_an_error_with_valid_patterns":       tot.ErrorsValid,
		"invalid_list_cases":                                      tot.InvalidEvals,
		"zip_left_an_archive_behind_after_rejecting_the_patterns": tot.ZipLeftArc,
	}
	rep.Coverage["samples"] = samples
	rep.Coverage["explanation"] = "outcome = (operation, error kind, set of relative paths reported / copied / archived / surviving); destinations are read back with os.ReadDir (OS) or Lstat+Readdirnames (memory), archives with archive/zip"
	rep.Assume = []string{
		"patterns are anchor-free (the property's quantifier); the root's own path, the copy destinations and the archive path contain none of x, y, z",
		"no symbolic links (C04's subject)",
		"operations are applied to the root of the tree",
	}
	rep.Finish()
}

// replay re-runs one stored case (VERIF_REPLAY=<file written by a previous run>); no evidence file is written.
func replay(path string) {
	shm, err0 := os.MkdirTemp("/dev/shm", "verif-c08-")
	if err0 != nil {
		fmt.Printf("ENGINE-ERROR: property=C08 %v\n", err0)
		ev.ExitCode = 2
		return
	}
	defer os.RemoveAll(shm)
	b, err := os.ReadFile(path)
	var doc struct {
		Signature string   `json:"signature"`
		Replay    caseDesc `json:"replay"`
	}
	if err == nil {
		err = json.Unmarshal(b, &doc)
	}
	op, ok := opByName(doc.Replay.Op)
	if err != nil || !ok {
		fmt.Printf("ENGINE-ERROR: property=C08 cannot read replay %s: %v\n", path, err)
		ev.ExitCode = 2
		return
	}
	cd := doc.Replay
	for _, h := range cd.History {
		fmt.Printf("replay: first, the same operation with patterns %q on a copy of the tree\n", h)
	}
	r, vs, err := runWithHistory(cd, shm)
	if err != nil {
		fmt.Printf("ENGINE-ERROR: property=C08 cannot build the case: %v\n", err)
		ev.ExitCode = 2
		return
	}
	fmt.Printf("replay: backend=%s operation=%s tree=%s patterns=%q\nreplay: error kind %q (%v)\nreplay: %s %v\n", cd.Backend, cd.Op, cd.Tree, cd.Patterns, errKind(r.err), r.err, map[bool]string{true: "survivors", false: opVerb[op]}[op.destructive()], sortedKeys(r.set))
	if cd.Mode == "valid" {
		ps := newPset(cd.Patterns)
		c := classify(cd.Tree, ps)
		for i, e := range cd.Tree.Entries {
			fmt.Printf("replay:   %-12s %s\n", e.Path, [...]string{"MUST-DO", "unspecified", "MUST-SKIP"}[c.cls[i]])
		}
	}
	if len(vs) == 0 {
		fmt.Println("replay: no violation")
		return
	}
	for _, v := range vs {
		fmt.Printf("VIOLATION property=C08 replay=%s signature=%s:backend=%s entry=%s\n", path, v.core, cd.Backend, v.entry)
	}
	ev.ExitCode = 1
}

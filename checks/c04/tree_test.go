package c04

// Tree shapes, link decorations, and the code that materialises a case in a sandbox directory.
//
// Layout of one case (everything relative to the case directory, which lies below the run's
// /dev/shm/verif-c04-* sandbox or, for the in-memory backend, below "/0" of a private MemMapFs):
//
//	T/            the tree handed to the removal entry point           (names a b k p q, links x y)
//	O/            the "outside" region next to it                      (names g j n t u w)
//	O/g           file            O/j/ directory with O/j/n and O/j/t/n     O/w/ empty directory
//	O/u -> j      a link (to a directory) that itself lives outside
//
// No name used inside a case shares a letter with the sandbox path ("/dev/shm/verif-c04-<digits>/<digits>")
// because the repository matches exclusion patterns unanchored against whole paths.

import (
	"fmt"
	"os"
	"path/filepath"
	"strings"
	"syscall"
	"time"
	"unsafe"

	"github.com/spf13/afero"
)

const (
	entryNames = "abkpq"
	linkNames  = "xy"
)

// Link kinds.
const (
	LFileIn   = "FI" // -> a file of the tree
	LDirIn    = "DI" // -> a directory of the tree that is not an ancestor of the link
	LAncestor = "AN" // -> an ancestor directory of the link (T included): a loop
	LUp       = "UP" // -> the directory that contains T and O: a loop that also reaches the outside
	LFileOut  = "FO" // -> O/g
	LDirOut   = "DO" // -> O/j (non-empty)
	LDirOutE  = "DE" // -> O/w (empty)
	LLinkOut  = "DL" // -> O/u, itself a link to O/j
	LDangling = "DG" // -> O/zz which does not exist
)

// Link is one symbolic link decorating the tree.
type Link struct {
	Loc    int    `json:"loc"`    // directory holding the link: 0 = T, i = entry i
	Kind   string `json:"kind"`   // see above
	Target int    `json:"target"` // entry index for FI / DI / AN (0 = T)
	Rel    bool   `json:"rel"`    // relative link text instead of absolute
}

func (l Link) String() string {
	s := fmt.Sprintf("%s@%d", l.Kind, l.Loc)
	switch l.Kind {
	case LFileIn, LDirIn, LAncestor:
		s += fmt.Sprintf(">%d", l.Target)
	}
	if l.Rel {
		s += "r"
	}
	return s
}

// Case is one fully determined evaluation; it is also the replay object.
type Case struct {
	Backend  string `json:"backend"` // "os" | "mem"
	Parents  []int  `json:"parents"` // Parents[i-1] = parent of entry i (0 = T); non-decreasing
	Kinds    string `json:"kinds"`   // Kinds[i-1] = 'f' | 'd'
	Links    []Link `json:"links,omitempty"`
	ReadOnly int    `json:"read_only,omitempty"` // entry made read-only (0 = none)
	// OutsideRO: everything in the outside region O is read-only for its owner (files 0444, directories 0555): a call that
	// makes what it is about to remove writable must not do so to what a link points at
	OutsideRO bool `json:"outside_read_only,omitempty"`
	// FewDescriptors: while the call runs the process may open only a dozen more files than it has open already (a deep tree
	// must not need a descriptor per level)
	FewDescriptors bool `json:"few_descriptors,omitempty"`
	Op       string `json:"op"`
	Protect  int    `json:"protect,omitempty"` // exclusion pattern = name of entry i (>0) or of link -i (<0); 0 = no pattern
}

func (c *Case) n() int { return len(c.Kinds) }

func (c *Case) entryRel(i int) string {
	if i == 0 {
		return "T"
	}
	return c.entryRel(c.Parents[i-1]) + "/" + string(entryNames[(i-1)%len(entryNames)]) // (names repeat along a deep chain)
}

func (c *Case) linkRel(j int) string { // j = 0-based link index
	return c.entryRel(c.Links[j].Loc) + "/" + string(linkNames[j])
}

// linkTargetRel is the target of link j relative to the case directory ("" = the case directory).
func (c *Case) linkTargetRel(j int) string {
	l := c.Links[j]
	switch l.Kind {
	case LFileIn, LDirIn, LAncestor:
		return c.entryRel(l.Target)
	case LUp:
		return ""
	case LFileOut:
		return "O/g"
	case LDirOut:
		return "O/j"
	case LDirOutE:
		return "O/w"
	case LLinkOut:
		return "O/u"
	case LDangling:
		return "O/zz"
	}
	panic("unknown link kind " + l.Kind)
}

func (c *Case) pattern() []string {
	switch {
	case c.Protect > 0:
		return []string{string(entryNames[c.Protect-1])}
	case c.Protect < 0:
		return []string{string(linkNames[-c.Protect-1])}
	}
	return nil
}

// protectedRel returns the path (relative to the case directory) of the protected entry, "" if none.
func (c *Case) protectedRel() string {
	switch {
	case c.Protect > 0:
		return c.entryRel(c.Protect)
	case c.Protect < 0:
		return c.linkRel(-c.Protect - 1)
	}
	return ""
}

func (c *Case) shapeString() string {
	var sb strings.Builder
	for i := 1; i <= c.n(); i++ {
		fmt.Fprintf(&sb, "%c%d", c.Kinds[i-1], c.Parents[i-1])
	}
	return sb.String()
}

func (c *Case) String() string {
	s := fmt.Sprintf("%s shape=%s", c.Backend, c.shapeString())
	for _, l := range c.Links {
		s += " " + l.String()
	}
	if c.ReadOnly != 0 {
		s += fmt.Sprintf(" ro=%d", c.ReadOnly)
	}
	if c.OutsideRO {
		s += " outside-read-only"
	}
	if c.FewDescriptors {
		s += " few-descriptors"
	}
	s += " op=" + c.Op
	if c.Protect != 0 {
		s += fmt.Sprintf(" protect=%d", c.Protect)
	}
	return s
}

// ---- enumeration ----------------------------------------------------------------------------------

type shape struct {
	Parents []int
	Kinds   string
}

// shapes enumerates every tree of exactly n entries below T: entry i is a file or a directory, its parent is T
// or an earlier directory, and the parent sequence is non-decreasing (level-order labelling: every unordered
// tree has at least one such labelling, so no shape is missed; some shapes appear under more than one
// labelling, which varies the creation order of siblings).
func shapes(n int) []shape {
	var out []shape
	parents := make([]int, n)
	kinds := make([]byte, n)
	var rec func(i int)
	rec = func(i int) {
		if i == n {
			out = append(out, shape{append([]int(nil), parents...), string(kinds)})
			return
		}
		lo := 0
		if i > 0 {
			lo = parents[i-1]
		}
		for p := lo; p <= i; p++ { // p = 0 (T) or an earlier entry p (1-based) that is a directory
			if p > 0 && kinds[p-1] != 'd' {
				continue
			}
			parents[i] = p
			for _, k := range []byte{'f', 'd'} {
				kinds[i] = k
				rec(i + 1)
			}
		}
	}
	rec(0)
	return out
}

func (s shape) isAncestorOrSelf(a, of int) bool { // is a an ancestor of (or equal to) directory `of`
	for {
		if a == of {
			return true
		}
		if of == 0 {
			return false
		}
		of = s.Parents[of-1]
	}
}

// linkChoices enumerates every single-link decoration of a shape.
func linkChoices(s shape, withRel bool) []Link {
	var out []Link
	locs := []int{0}
	for i := 1; i <= len(s.Kinds); i++ {
		if s.Kinds[i-1] == 'd' {
			locs = append(locs, i)
		}
	}
	rels := []bool{false}
	if withRel {
		rels = []bool{false, true}
	}
	for _, loc := range locs {
		for _, rel := range rels {
			for i := 1; i <= len(s.Kinds); i++ {
				if s.Kinds[i-1] == 'f' {
					out = append(out, Link{loc, LFileIn, i, rel})
				} else if !s.isAncestorOrSelf(i, loc) {
					out = append(out, Link{loc, LDirIn, i, rel})
				}
			}
			for a := 0; a <= len(s.Kinds); a++ {
				if (a == 0 || s.Kinds[a-1] == 'd') && s.isAncestorOrSelf(a, loc) {
					out = append(out, Link{loc, LAncestor, a, rel})
				}
			}
			for _, k := range []string{LUp, LFileOut, LDirOut, LDirOutE, LLinkOut, LDangling} {
				out = append(out, Link{loc, k, 0, rel})
			}
		}
	}
	return out
}

// aliasing reports whether the link makes entries of the tree reachable under a second path.
func (l Link) aliasing() bool {
	switch l.Kind {
	case LFileIn, LDirIn, LAncestor, LUp:
		return true
	}
	return false
}

// ---- materialisation ------------------------------------------------------------------------------

// sandboxRoot is the only region of the real file system this check ever touches.
const sandboxPrefix = "/dev/shm/verif-c04-"

// mustBeInside panics unless p is an absolute, clean path strictly below dir.
func mustBeInside(p, dir string) {
	if !filepath.IsAbs(p) || filepath.Clean(p) != p || !strings.HasPrefix(p, dir+"/") || strings.Contains(p, "..") {
		panic(fmt.Sprintf("c04 safety: path %q is not below %q", p, dir))
	}
}

// mustBeSandbox panics unless base is a directory of the form /dev/shm/verif-c04-<something without slash>.
func mustBeSandbox(base string) {
	if !strings.HasPrefix(base, sandboxPrefix) || filepath.Clean(base) != base || strings.Contains(base[len(sandboxPrefix):], "/") || len(base) == len(sandboxPrefix) {
		panic(fmt.Sprintf("c04 safety: %q is not a sandbox directory", base))
	}
}

type builder struct {
	raw     afero.Fs // raw backend (never the traced wrapper)
	caseDir string
	osBack  bool
	oldTime time.Time
}

func (b *builder) abs(rel string) string {
	if rel == "" {
		return b.caseDir
	}
	return b.caseDir + "/" + rel
}

func (b *builder) mkdir(rel string) error { return b.raw.Mkdir(b.abs(rel), 0o755) }
func (b *builder) file(rel, content string) error {
	return afero.WriteFile(b.raw, b.abs(rel), []byte(content), 0o644)
}

// symlink creates linkRel -> targetRel. Safety: the resolved target is always the case directory or below it,
// so that even a removal that follows links can never leave the case directory.
func (b *builder) symlink(linkRel, targetRel string, relative bool) error {
	target := b.abs(targetRel)
	link := b.abs(linkRel)
	mustBeInside(link, b.caseDir)
	if target != b.caseDir {
		mustBeInside(target, b.caseDir)
	}
	text := target
	if relative {
		r, err := filepath.Rel(filepath.Dir(link), target)
		if err != nil {
			return err
		}
		text = r
		if resolved := filepath.Join(filepath.Dir(link), text); resolved != target {
			panic(fmt.Sprintf("c04 safety: relative link text %q resolves to %q, not %q", text, resolved, target))
		}
	}
	return b.raw.(afero.Linker).SymlinkIfPossible(text, link)
}

// build creates T and O for the case. The caller has created an empty case directory.
func (b *builder) build(c *Case) error {
	steps := []func() error{
		func() error { return b.mkdir("O") },
		func() error { return b.file("O/g", "outside-g") },
		func() error { return b.mkdir("O/j") },
		func() error { return b.file("O/j/n", "outside-j-n") },
		func() error { return b.mkdir("O/j/t") },
		func() error { return b.file("O/j/t/n", "outside-j-t-n") },
		func() error { return b.mkdir("O/w") },
		func() error { return b.mkdir("T") },
	}
	for _, s := range steps {
		if err := s(); err != nil {
			return err
		}
	}
	if b.osBack {
		if err := b.symlink("O/u", "O/j", true); err != nil {
			return err
		}
	}
	for i := 1; i <= c.n(); i++ {
		var err error
		if c.Kinds[i-1] == 'd' {
			err = b.mkdir(c.entryRel(i))
		} else {
			err = b.file(c.entryRel(i), fmt.Sprintf("content-%d", i))
		}
		if err != nil {
			return err
		}
	}
	for j := range c.Links {
		if !b.osBack {
			return fmt.Errorf("links need the OS backend")
		}
		if err := b.symlink(c.linkRel(j), c.linkTargetRel(j), c.Links[j].Rel); err != nil {
			return err
		}
	}
	return nil
}

// lutimes sets the times of a link itself (utimensat with AT_SYMLINK_NOFOLLOW; the os package only offers the
// following variant).
func lutimes(path string, t time.Time) error {
	p, err := syscall.BytePtrFromString(path)
	if err != nil {
		return err
	}
	ts := [2]syscall.Timespec{syscall.NsecToTimespec(t.UnixNano()), syscall.NsecToTimespec(t.UnixNano())}
	const atFdCwd, atSymlinkNoFollow = -100, 0x100
	fd := atFdCwd
	if _, _, e := syscall.Syscall6(syscall.SYS_UTIMENSAT, uintptr(fd), uintptr(unsafe.Pointer(p)), uintptr(unsafe.Pointer(&ts[0])), atSymlinkNoFollow, 0, 0); e != 0 {
		return &os.PathError{Op: "utimensat", Path: path, Err: e}
	}
	return nil
}

// age gives every file, directory and link of the case an access/modification time far in the past (garbage
// collection decides by access time; the thresholds used are 1 h and 100 years against an age of 10 years, so
// that no verdict depends on how long anything takes).
func (b *builder) age(c *Case) error {
	if b.osBack {
		links := []string{"O/u"}
		for j := range c.Links {
			if c.Op == OpGCFreshLinks {
				continue // the tree's own links stay younger than the threshold
			}
			links = append(links, c.linkRel(j))
		}
		for _, l := range links {
			mustBeInside(b.abs(l), b.caseDir)
			if err := lutimes(b.abs(l), b.oldTime); err != nil {
				return err
			}
		}
	}
	rels := []string{"O/g", "O/j/n", "O/j/t/n", "O/j/t", "O/j", "O/w", "O"}
	for i := c.n(); i >= 1; i-- {
		rels = append(rels, c.entryRel(i))
	}
	rels = append(rels, "T")
	for _, r := range rels {
		if err := b.raw.Chtimes(b.abs(r), b.oldTime, b.oldTime); err != nil {
			return err
		}
	}
	return nil
}

func (b *builder) readOnly(c *Case) error {
	if c.OutsideRO {
		for _, f := range []string{"O/g", "O/j/n", "O/j/t/n"} {
			if err := b.raw.Chmod(b.abs(f), 0o444); err != nil {
				return err
			}
		}
		for _, d := range []string{"O/j/t", "O/j", "O/w"} {
			if err := b.raw.Chmod(b.abs(d), 0o555); err != nil {
				return err
			}
		}
	}
	if c.ReadOnly == 0 {
		return nil
	}
	mode := os.FileMode(0o444)
	if c.Kinds[c.ReadOnly-1] == 'd' {
		mode = 0o555
	}
	return b.raw.Chmod(b.abs(c.entryRel(c.ReadOnly)), mode)
}

// wipe removes a case directory of the OS backend with raw os calls (directories are made writable first).
func wipe(caseDir, base string) error {
	mustBeSandbox(base)
	mustBeInside(caseDir, base)
	_ = filepath.WalkDir(caseDir, func(p string, d os.DirEntry, err error) error {
		if err == nil && d.IsDir() { // WalkDir never follows links
			_ = os.Chmod(p, 0o700)
		}
		return nil
	})
	return os.RemoveAll(caseDir)
}

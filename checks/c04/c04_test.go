// C04 — recursive removal never touches anything outside the tree; symbolic links are removed as links.
//
// Bounded-exhaustive enumeration, executed on the real code of utils/filesystem: every tree shape within a bound on the
// number of entries (files, empty and non-empty directories, one entry optionally read-only) x every decoration with
// <= 2 symbolic links (to a file / directory inside the tree, to an ancestor, to the directory holding tree and outside
// region, to a file / non-empty directory / empty directory / link outside, to nothing; every location, every target;
// absolute and relative link texts) x every removal entry point (Rm, RemoveWithContext,
// RemoveWithContextAndExclusionPatterns, CleanDir, CleanDirWithContext, CleanDirWithContextAndExclusionPatterns,
// GarbageCollect and GarbageCollectWithContext with an age threshold below and above the age of the entries,
// MoveBetweenFS whose second half is a removal) x {no pattern, the pattern that is the name of one entry or link}.
// The bound depends on the class of decoration (see theBound). The real VFS runs over a vfsx trace layer over the real
// backend (ExtendedOsFs in a sandbox under /dev/shm/verif-c04-*, afero MemMapFs for the link-free shapes).
//
// Signatures: <clause>:op=<rm|gc>:<class>. "rm" stands for Rm / Remove… / CleanDir… / MoveBetweenFS (one mutually
// recursive routine), "gc" for garbage collection (its own recursion); the class is computed from the case: the kind of
// link the offending call crossed last, the kind of link that was left behind, the depth of the protected entry and
// whether a call was made on its own path.
//
// Oracle (per case), and the reading taken of the statement where it is ambiguous (always the weakest):
//
//	A  outside-changed   the snapshot (paths, kinds, link texts, contents, modes) of everything of the case directory
//	                     that is not T is identical before and after the call, whatever the call returned.
//	B  link-followed     no *successful mutating* backend call has a path with a symbolic link among the components
//	                     between T and its last component ("never followed" is read as "never followed by something that
//	                     deletes or modifies": Stat / Open / Readdirnames through a link are not counted).
//	                     Reported only when A is silent (A implies B).
//	C  not-removed       the call returned nil, no pattern was given, entry point of the Remove family => T is gone;
//	                     CleanDir family => nothing is left below T. Not applied to garbage collection: it removes by
//	                     age, and the statement does not define the age of a link (so a dangling link left by a
//	                     collection is not reported). Not applied when the call returned an error.
//	D  protected-lost    with the pattern equal to the *full name* of exactly one entry (which therefore matches under
//	                     "own name matched in full" and under the repository's unanchored whole-path matching alike):
//	                     that entry is still there with the same kind and content / link text, and so is every
//	                     directory between it and T. Nothing is demanded of what lies beneath a protected directory,
//	                     nor of entries that do not match (property C08 owns the general pattern semantics).
//
// Garbage collection runs its per-entry work on free-running goroutines (parallelisation.Parallelise): with a link that
// makes entries of the tree reachable under a second path (FI, DI, AN, UP) the result depends on the Go scheduler, and
// C04 quantifies over inputs, not schedules. Those combinations are left out; the sequential entry points run them.
// RemoveWithPrivileges is left out on purpose: its fall-back is `sudo rm -rf`.
//
// Safety of the harness itself: every path handed to the code under test is checked to be an absolute clean path below
// the run's /dev/shm/verif-c04-* directory; every link created resolves to the case directory or below; a guard layer
// under the VFS refuses any mutating backend call whose path leaves the case directory; and the enumeration runs in
// child processes that have dropped to uid/gid 65534 when the check is started as root.
package c04

import (
	"context"
	"encoding/json"
	"fmt"
	"os"
	"os/exec"
	"path/filepath"
	"runtime"
	"sort"
	"strconv"
	"strings"
	"sync"
	"syscall"
	"testing"
	"time"

	"github.com/ARM-software/golang-utils/utils/filesystem"
	"github.com/spf13/afero"

	ev "verif/engine/evidence"
	"verif/engine/vfsx"
)

func TestMain(m *testing.M) { ev.Main(m) }

// ---- entry points ---------------------------------------------------------------------------------

const (
	OpRm        = "Rm"
	OpRemoveCtx = "RemoveWithContext"
	OpRemoveEx  = "RemoveWithContextAndExclusionPatterns"
	OpClean     = "CleanDir"
	OpCleanCtx  = "CleanDirWithContext"
	OpCleanEx   = "CleanDirWithContextAndExclusionPatterns"
	OpGCOld     = "GarbageCollect(age<files)"
	OpGCCtxOld  = "GarbageCollectWithContext(age<files)"
	OpGCInf     = "GarbageCollect(age>files)"
	OpGCCtxInf  = "GarbageCollectWithContext(age>files)"
	OpMove      = "MoveBetweenFS(removal half)"
	// the links of the tree are younger than the threshold while everything else (their targets outside included) is
	// older: a collector that only refuses to follow the links it COLLECTS would still follow these
	OpGCFreshLinks = "GarbageCollect(age<files, links younger than the threshold)"
)

var allOps = []string{OpRm, OpRemoveCtx, OpRemoveEx, OpClean, OpCleanCtx, OpCleanEx, OpGCOld, OpGCCtxOld, OpGCInf, OpGCCtxInf, OpMove, OpGCFreshLinks}

// one representative per distinct code path (used for the 2-link decorations)
var coreOps = []string{OpRemoveEx, OpCleanEx, OpGCCtxOld, OpGCInf, OpGCFreshLinks}

func family(op string) string {
	switch op {
	case OpRm, OpRemoveCtx, OpRemoveEx, OpMove:
		return "remove"
	case OpClean, OpCleanCtx, OpCleanEx:
		return "clean"
	}
	return "gc"
}

const (
	fileAge    = 10 * 365 * 24 * time.Hour
	gcBelowAge = time.Hour
	gcAboveAge = 100 * 365 * 24 * time.Hour
)

func runOp(fs filesystem.FS, op, root string, patterns []string) error {
	ctx := context.Background()
	switch op {
	case OpRm:
		return fs.Rm(root)
	case OpRemoveCtx:
		return fs.RemoveWithContext(ctx, root)
	case OpRemoveEx:
		return fs.RemoveWithContextAndExclusionPatterns(ctx, root, patterns...)
	case OpClean:
		return fs.CleanDir(root)
	case OpCleanCtx:
		return fs.CleanDirWithContext(ctx, root)
	case OpCleanEx:
		return fs.CleanDirWithContextAndExclusionPatterns(ctx, root, patterns...)
	case OpGCOld, OpGCFreshLinks:
		return fs.GarbageCollect(root, gcBelowAge)
	case OpGCCtxOld:
		return fs.GarbageCollectWithContext(ctx, root, gcBelowAge)
	case OpGCInf:
		return fs.GarbageCollect(root, gcAboveAge)
	case OpGCCtxInf:
		return fs.GarbageCollectWithContext(ctx, root, gcAboveAge)
	case OpMove:
		// destination on a private in-memory file system: only the source side is under observation
		return filesystem.MoveBetweenFS(ctx, fs, root, filesystem.NewFs(filesystem.InMemoryFS), "/dst")
	}
	panic("unknown op " + op)
}

// ---- the bound ------------------------------------------------------------------------------------

type bound struct {
	N0     int `json:"link_free_max_entries"`                    // both backends, every entry point, read-only and pattern variants
	N1     int `json:"one_plain_link_max_entries"`               // one link that is not a loop: every entry point, pattern variants
	N1Full int `json:"one_plain_link_full_variants_max_entries"` // ... plus relative link texts and read-only variants
	NL     int `json:"one_loop_link_max_entries"`                // one loop link (AN, UP): every sequential entry point, pattern variants
	NLFull int `json:"one_loop_link_full_variants_max_entries"`  // ... plus relative link texts and read-only variants (-1 = never)
	N2     int `json:"two_plain_links_max_entries"`              // two links, neither a loop: 4 representative entry points (-1 = never)
	N2L    int `json:"loop_link_plus_plain_link_max_entries"`    // a loop link and a link that is no directory alias (-1 = never)
}

// A removal that follows a loop link descends until the kernel refuses the path (40 link traversals), which costs
// 30-150 ms per case instead of 1 ms: loop decorations get a smaller bound. Two directory aliases of which one is a
// loop make the number of paths exponential in that depth (2^40 calls): such pairs are not run at all.
func theBound() bound {
	if ev.Thorough() {
		return bound{N0: 5, N1: 5, N1Full: 3, NL: 3, NLFull: 2, N2: 4, N2L: 2}
	}
	return bound{N0: 4, N1: 4, N1Full: 2, NL: 2, NLFull: -1, N2: 2, N2L: 1}
}

func (l Link) loop() bool { return l.Kind == LAncestor || l.Kind == LUp }

func (l Link) dirAlias() bool { return l.Kind == LAncestor || l.Kind == LUp || l.Kind == LDirIn }

type treeSpec struct {
	Backend string
	S       shape
	Links   []Link
	Full    bool // read-only variants as well
}

// forEachTree calls fn for every tree of the bound, in a fixed order, with the list of cases to run on it.
func forEachTree(b bound, fn func(treeIdx int, cases []Case)) {
	idx := 0
	emit := func(t treeSpec) {
		fn(idx, casesOf(t))
		idx++
	}
	// a chain 48 directories deep with a file at the bottom, removed while few descriptors are left to the process
	{
		const depth = 48
		ch := shape{Kinds: strings.Repeat("d", depth) + "f"}
		for i := 0; i <= depth; i++ {
			ch.Parents = append(ch.Parents, i)
		}
		var cs []Case
		for _, op := range []string{OpRm, OpRemoveCtx, OpRemoveEx, OpClean, OpCleanCtx, OpCleanEx} {
			cs = append(cs, Case{Backend: "os", Parents: ch.Parents, Kinds: ch.Kinds, Op: op, FewDescriptors: true})
		}
		fn(idx, cs)
		idx++
	}
	maxN := max(b.N0, b.N1, b.NL, b.N2, b.N2L)
	for n := 0; n <= maxN; n++ {
		for _, s := range shapes(n) {
			if n <= b.N0 {
				emit(treeSpec{"os", s, nil, true})
				emit(treeSpec{"mem", s, nil, true})
			}
			for _, l := range linkChoices(s, true) {
				lim, full := b.N1, b.N1Full
				if l.loop() {
					lim, full = b.NL, b.NLFull
				}
				if n > lim || (l.Rel && n > full) {
					continue
				}
				emit(treeSpec{"os", s, []Link{l}, n <= full})
			}
			ch := linkChoices(s, false)
			for i := range ch {
				for j := i; j < len(ch); j++ {
					lim := b.N2
					switch {
					case (ch[i].loop() && ch[j].dirAlias()) || (ch[j].loop() && ch[i].dirAlias()):
						continue // exponential, see above
					case ch[i].loop() || ch[j].loop():
						lim = b.N2L
					}
					if n <= lim {
						emit(treeSpec{"os", s, []Link{ch[i], ch[j]}, false})
					}
				}
			}
		}
	}
}

func casesOf(t treeSpec) []Case {
	var out []Case
	n := len(t.S.Kinds)
	aliasing := false
	for _, l := range t.Links {
		aliasing = aliasing || l.aliasing()
	}
	ops := allOps
	if len(t.Links) >= 2 {
		ops = coreOps
	}
	mk := func(op string, protect, ro int) {
		out = append(out, Case{Backend: t.Backend, Parents: t.S.Parents, Kinds: t.S.Kinds, Links: t.Links, Op: op, Protect: protect, ReadOnly: ro})
	}
	for _, op := range ops {
		if family(op) == "gc" && aliasing {
			continue // scheduler-dependent, see the header
		}
		mk(op, 0, 0)
		for _, l := range t.Links {
			if t.Backend == "os" && len(t.Links) == 1 && (l.Kind == LFileOut || l.Kind == LDirOut || l.Kind == LDirOutE || l.Kind == LLinkOut) {
				out = append(out, Case{Backend: t.Backend, Parents: t.S.Parents, Kinds: t.S.Kinds, Links: t.Links, Op: op, OutsideRO: true})
			}
		}
		if t.Full {
			for ro := 1; ro <= n; ro++ {
				mk(op, 0, ro)
			}
		}
		if (op == OpRemoveEx || op == OpCleanEx) && len(t.Links) <= 1 {
			for p := 1; p <= n; p++ {
				mk(op, p, 0)
			}
			for j := range t.Links {
				mk(op, -(j + 1), 0)
			}
		}
	}
	return out
}

// ---- guard layer ----------------------------------------------------------------------------------

// guard refuses every mutating backend call that would leave the case directory. It can only trip on a defect far
// worse than the ones C04 is about (or on a harness bug); it exists so that no such event can reach the machine.
type guard struct {
	region   string
	physical bool
	mu       sync.Mutex
	lexical  []string // calls refused because their path is not below the case directory
	resolved []string // calls refused because their parent resolves outside the case directory (cannot happen by construction)
}

func (g *guard) below(p string) bool {
	return strings.HasPrefix(p, g.region+"/") && filepath.Clean(p) == p
}

func (g *guard) Before(op *vfsx.Op) *vfsx.Inject {
	if !op.Mutates {
		return nil
	}
	refuse := func(list *[]string) *vfsx.Inject {
		g.mu.Lock()
		*list = append(*list, op.String())
		g.mu.Unlock()
		return &vfsx.Inject{Err: &os.PathError{Op: "c04-guard", Path: op.Path, Err: syscall.EPERM}, Short: -1}
	}
	if op.Kind == vfsx.KForceRemove || !g.below(op.Path) {
		return refuse(&g.lexical)
	}
	if (op.Kind == vfsx.KRename || op.Kind == vfsx.KLink) && !g.below(op.Path2) {
		return refuse(&g.lexical)
	}
	if g.physical {
		if real, err := filepath.EvalSymlinks(filepath.Dir(op.Path)); err == nil && real != g.region && !strings.HasPrefix(real, g.region+"/") {
			return refuse(&g.resolved)
		}
	}
	return nil
}

func (g *guard) After(op *vfsx.Op) {}

// ---- one case -------------------------------------------------------------------------------------

type violation struct {
	Sig    string         `json:"signature"`
	Detail map[string]any `json:"detail"`
}

type caseResult struct {
	Outcome     string
	LinkReached bool // some backend call (of any kind) was made on a link of the tree or through one
	Mutated     bool // at least one successful mutating backend call
	Viols       []violation
	EngineErr   string
}

type runner struct {
	base  string // sandbox directory of the run (OS backend)
	slot  string // name of this runner's case directory below base
	osRaw afero.Fs
}

func snapMap(es []vfsx.Entry) map[string]vfsx.Entry {
	m := make(map[string]vfsx.Entry, len(es))
	for _, e := range es {
		m[e.Path] = e
	}
	return m
}

func underT(rel string) bool { return rel == "T" || strings.HasPrefix(rel, "T/") }

func sameEntry(a, b vfsx.Entry) bool {
	return a.Kind == b.Kind && a.Content == b.Content && a.Mode == b.Mode && a.Size == b.Size
}

func (r *runner) run(c *Case) (res caseResult) {
	var raw afero.Fs
	var caseDir string
	var fs filesystem.FS
	trace := vfsx.NewTrace()
	g := &guard{}
	shared := vfsx.NewShared(g, trace)
	osBack := c.Backend == "os"
	if osBack {
		mustBeSandbox(r.base)
		caseDir = r.base + "/" + r.slot
		mustBeInside(caseDir, r.base)
		raw = r.osRaw
		if err := os.Mkdir(caseDir, 0o755); err != nil {
			res.EngineErr = "cannot create the case directory: " + err.Error()
			return
		}
		defer func() {
			if err := wipe(caseDir, r.base); err != nil && res.EngineErr == "" {
				res.EngineErr = "cannot remove the case directory: " + err.Error()
			}
		}()
		g.region, g.physical = caseDir, true
		fs = filesystem.NewVirtualFileSystem(vfsx.NewOS(filesystem.NewExtendedOsFs(), shared, 0), filesystem.StandardFS, filesystem.IdentityPathConverterFunc)
	} else {
		if len(c.Links) > 0 {
			res.EngineErr = "the in-memory backend has no links"
			return
		}
		raw = afero.NewMemMapFs()
		caseDir = "/0"
		if err := raw.Mkdir(caseDir, 0o755); err != nil {
			res.EngineErr = err.Error()
			return
		}
		g.region = caseDir
		fs = filesystem.NewVirtualFileSystem(vfsx.NewMem(raw, shared, 0), filesystem.InMemoryFS, filesystem.IdentityPathConverterFunc)
	}
	b := &builder{raw: raw, caseDir: caseDir, osBack: osBack, oldTime: time.Now().Add(-fileAge)}
	if err := b.build(c); err != nil {
		res.EngineErr = "cannot build the tree: " + err.Error()
		return
	}
	if err := b.readOnly(c); err != nil {
		res.EngineErr = "cannot make an entry read-only: " + err.Error()
		return
	}
	before := snapMap(vfsx.Snapshot(raw, caseDir, vfsx.SnapOpt{Mode: true}))
	if err := b.age(c); err != nil {
		res.EngineErr = "cannot set times: " + err.Error()
		return
	}
	root := caseDir + "/T"
	if osBack {
		mustBeInside(root, r.base) // the path handed to the code under test
	}
	trace.Reset()
	baseline := runtime.NumGoroutine()
	var oldLimit syscall.Rlimit
	limited := false
	if c.FewDescriptors && syscall.Getrlimit(syscall.RLIMIT_NOFILE, &oldLimit) == nil {
		if fds, e := os.ReadDir("/proc/self/fd"); e == nil {
			nl := oldLimit
			nl.Cur = uint64(len(fds) + 12)
			limited = nl.Cur < oldLimit.Cur && syscall.Setrlimit(syscall.RLIMIT_NOFILE, &nl) == nil
		}
	}
	err := runOp(fs, c.Op, root, c.pattern())
	if limited {
		_ = syscall.Setrlimit(syscall.RLIMIT_NOFILE, &oldLimit)
	}
	// garbage collection may return while goroutines it started are still removing things: wait for them
	for spins := 0; runtime.NumGoroutine() > baseline; spins++ {
		if spins > 50_000_000 {
			res.EngineErr = "goroutines started by the call never finished"
			return
		}
		runtime.Gosched()
	}
	ops := trace.Log()
	after := snapMap(vfsx.Snapshot(raw, caseDir, vfsx.SnapOpt{Mode: true}))

	fam := family(c.Op)
	linkAt := map[string]int{} // relative path of a link of the tree -> its index
	for j := range c.Links {
		linkAt[c.linkRel(j)] = j
	}
	if len(g.resolved) > 0 {
		res.EngineErr = fmt.Sprintf("a backend call resolved outside the case directory (links are built never to allow this): %v", g.resolved)
		return
	}

	// which successful mutating calls went through a link, or addressed something that is not in T
	type viaCall struct {
		text string
		last int // the last link among the components above the path's last component
	}
	var via []viaCall
	var strayOps []string
	directlyMutated := map[string]bool{} // relative paths on which a successful mutating call was made without any link above
	for i := range ops {
		op := &ops[i]
		rel := strings.TrimPrefix(op.Path, caseDir+"/")
		if rel == op.Path {
			continue
		}
		// resolve the components above the last one the way the kernel does, remembering the last link of the tree crossed
		parts := strings.Split(rel, "/")
		last := -1
		cur := ""
		for k, comp := range parts {
			if cur == "" {
				cur = comp
			} else {
				cur += "/" + comp
			}
			if k == len(parts)-1 {
				break
			}
			if j, ok := linkAt[cur]; ok {
				last = j
				cur = c.linkTargetRel(j)
			}
			if cur == "O/u" { // the link that lives outside
				cur = "O/j"
			}
		}
		if _, ok := linkAt[cur]; ok || last >= 0 {
			res.LinkReached = true
		}
		if !op.Mutates || op.Err != nil {
			continue
		}
		res.Mutated = true
		if !underT(rel) {
			strayOps = append(strayOps, op.String())
		}
		if last >= 0 {
			via = append(via, viaCall{op.String(), last})
		} else {
			directlyMutated[rel] = true
		}
	}
	var throughOps []string
	for i := range via {
		if i < 6 {
			throughOps = append(throughOps, via[i].text)
		}
	}
	// the link a violation is attributed to: the first call whose last link leaves the tree, else the first call through a link
	through := -1
	for _, v := range via {
		if !c.Links[v.last].aliasing() || c.Links[v.last].Kind == LUp {
			through = v.last
			break
		}
	}
	if through < 0 && len(via) > 0 {
		through = via[0].last
	}
	throughClass := "none"
	if through >= 0 {
		switch c.Links[through].Kind {
		case LUp:
			throughClass = "link-to-above-the-tree"
		case LAncestor:
			throughClass = "link-to-ancestor"
		case LFileIn, LDirIn:
			throughClass = "link-to-inside"
		default:
			throughClass = "link-to-outside"
		}
	}
	// signatures name the code path, not the entry point: Rm / Remove… / CleanDir… / the removal half of MoveBetweenFS
	// are one mutually recursive routine ("rm"); garbage collection has its own recursion ("gc")
	sigOp := "rm"
	if fam == "gc" {
		sigOp = "gc"
	}

	// A: everything that is not T is unchanged
	var outsideDiff []string
	what := ""
	note := func(w, line string) {
		if what == "" {
			what = w
		}
		if len(outsideDiff) < 8 {
			outsideDiff = append(outsideDiff, line)
		}
	}
	var beforePaths []string
	for p := range before {
		beforePaths = append(beforePaths, p)
	}
	sort.Strings(beforePaths)
	for _, p := range beforePaths {
		if underT(p) {
			continue
		}
		a, ok := after[p]
		switch {
		case !ok:
			note("deleted", "deleted: "+p)
		case !sameEntry(before[p], a):
			note("modified", "modified: "+p)
		}
	}
	var afterPaths []string
	for p := range after {
		afterPaths = append(afterPaths, p)
	}
	sort.Strings(afterPaths)
	for _, p := range afterPaths {
		if _, ok := before[p]; !ok && !underT(p) {
			note("created", "created: "+p)
		}
	}
	detail := func(extra map[string]any) map[string]any {
		d := map[string]any{"case": c, "case_text": c.String(), "returned": fmt.Sprint(err), "tree_before": dumpUnder(before, true), "left_of_tree": dumpUnder(after, true)}
		for k, v := range extra {
			d[k] = v
		}
		return d
	}
	switch {
	case len(g.lexical) > 0:
		res.Viols = append(res.Viols, violation{fmt.Sprintf("mutation-outside-case-directory:op=%s", sigOp), detail(map[string]any{"refused_calls": g.lexical})})
	case len(outsideDiff) > 0:
		res.Viols = append(res.Viols, violation{fmt.Sprintf("outside-changed:op=%s:through=%s:what=%s", sigOp, throughClass, what), detail(map[string]any{"outside_diff": outsideDiff, "calls_through_a_link": throughOps, "calls_not_in_T": strayOps})})
	case len(strayOps) > 0:
		res.Viols = append(res.Viols, violation{fmt.Sprintf("mutation-outside-tree:op=%s", sigOp), detail(map[string]any{"calls_not_in_T": strayOps})})
	case through >= 0:
		res.Viols = append(res.Viols, violation{fmt.Sprintf("link-followed:op=%s:through=%s", sigOp, throughClass), detail(map[string]any{"calls_through_a_link": throughOps})})
	}

	// state of the tree afterwards
	_, rootThere := after["T"]
	left := 0
	for p := range after {
		if strings.HasPrefix(p, "T/") {
			left++
		}
	}
	treeState := "intact"
	switch {
	case !rootThere:
		treeState = "gone"
	case left == 0:
		treeState = "empty"
	case left < c.n()+len(c.Links):
		treeState = "partial"
	}

	// C: success without pattern => really gone
	if err == nil && c.Protect == 0 && fam != "gc" {
		bad := (fam == "remove" && rootThere) || (fam == "clean" && left > 0)
		if bad {
			// what is left is classified by the links that survived: one whose target does not exist (any more), else
			// one whose target exists (only a cycle of links makes such a link survive), else none
			leftClass := "no-link"
			for j := range c.Links {
				if e, ok := after[c.linkRel(j)]; ok && e.Kind == 'l' {
					if _, targetThere := after[c.linkTargetRel(j)]; !targetThere && c.Links[j].Kind != LUp {
						leftClass = "dangling-link"
						break
					}
					leftClass = "live-link"
				}
			}
			res.Viols = append(res.Viols, violation{fmt.Sprintf("not-removed-but-success:op=%s:left=%s", sigOp, leftClass), detail(nil)})
		}
	}

	// D: the protected entry and the directories above it survive
	if p := c.protectedRel(); p != "" {
		depthClass := "top"
		if strings.Count(p, "/") > 1 {
			depthClass = "nested"
		}
		how := "indirect" // no successful mutating call on the entry's own path: it went through a link, or together with a directory above it
		if directlyMutated[p] {
			how = "direct"
		}
		a, ok := after[p]
		bf := before[p]
		if !ok || a.Kind != bf.Kind || a.Content != bf.Content {
			res.Viols = append(res.Viols, violation{fmt.Sprintf("protected-entry-lost:op=%s:how=%s:depth=%s", sigOp, how, depthClass), detail(map[string]any{"pattern": c.pattern(), "protected": p, "calls_through_a_link": throughOps})})
		} else {
			for q := filepath.Dir(p); q != "." && q != "/"; q = filepath.Dir(q) {
				if e, ok := after[q]; !ok || e.Kind != 'd' {
					res.Viols = append(res.Viols, violation{fmt.Sprintf("protected-ancestor-lost:op=%s:depth=%s", sigOp, depthClass), detail(map[string]any{"pattern": c.pattern(), "protected": p, "ancestor": q})})
					break
				}
			}
		}
	}

	errClass := "nil"
	if err != nil {
		errClass = "error"
	}
	outside := "same"
	if len(outsideDiff) > 0 {
		outside = "changed"
	}
	follow := "no"
	if through >= 0 {
		follow = "yes"
	}
	res.Outcome = fmt.Sprintf("%s|returned=%s|tree=%s|outside=%s|mutated-through-link=%s", fam, errClass, treeState, outside, follow)
	return
}

// dumpUnder renders the entries of T (or of everything else) on one line.
func dumpUnder(m map[string]vfsx.Entry, tree bool) string {
	var ps []string
	for p := range m {
		if underT(p) == tree {
			ps = append(ps, p)
		}
	}
	sort.Strings(ps)
	var sb strings.Builder
	for _, p := range ps {
		e := m[p]
		switch e.Kind {
		case 'd':
			fmt.Fprintf(&sb, "%s/ ", p)
		case 'l':
			fmt.Fprintf(&sb, "%s->%s ", p, e.Content)
		default:
			fmt.Fprintf(&sb, "%s ", p)
		}
	}
	return strings.TrimSpace(sb.String())
}

// ---- worker ---------------------------------------------------------------------------------------

type sigInfo struct {
	Count      int64     `json:"count"`
	FirstIndex int64     `json:"first_index"`
	First      violation `json:"first"`
}

type sampleCase struct {
	Index   int64  `json:"index"`
	Case    string `json:"case"`
	Outcome string `json:"outcome"`
}

type part struct {
	Trees        int64                 `json:"trees"`
	Evaluations  int64                 `json:"evaluations"`
	LinkReached  int64                 `json:"link_reached"`
	Nontrivial   int64                 `json:"nontrivial"`
	Protected    int64                 `json:"protected"`
	LinkFree     int64                 `json:"link_free"`
	Mutated      int64                 `json:"mutated"`
	ByBackend    map[string]int64      `json:"by_backend"`
	ByOp         map[string]int64      `json:"by_op"`
	ByLinkKind   map[string]int64      `json:"by_link_kind"`
	Outcomes     map[string]int64      `json:"outcomes"`
	Samples      map[string]sampleCase `json:"samples"` // first case of each outcome
	Sigs         map[string]*sigInfo   `json:"sigs"`
	EngineErrors []string              `json:"engine_errors"`
	DeadlineHit  bool                  `json:"deadline_hit"`
	Uid          int                   `json:"uid"`
}

func newPart() *part {
	return &part{ByBackend: map[string]int64{}, ByOp: map[string]int64{}, ByLinkKind: map[string]int64{}, Outcomes: map[string]int64{}, Samples: map[string]sampleCase{}, Sigs: map[string]*sigInfo{}, Uid: os.Geteuid()}
}

func (p *part) add(idx int64, c *Case, r caseResult) {
	if r.EngineErr != "" {
		if len(p.EngineErrors) < 5 {
			p.EngineErrors = append(p.EngineErrors, c.String()+": "+r.EngineErr)
		}
		return
	}
	p.Evaluations++
	p.ByBackend[c.Backend]++
	p.ByOp[c.Op]++
	for _, l := range c.Links {
		p.ByLinkKind[l.Kind]++
	}
	if r.LinkReached {
		p.LinkReached++
	}
	if c.Protect != 0 {
		p.Protected++
	}
	if r.LinkReached || c.Protect != 0 {
		p.Nontrivial++
	}
	if len(c.Links) == 0 {
		p.LinkFree++
	}
	if r.Mutated {
		p.Mutated++
	}
	p.Outcomes[r.Outcome]++
	if s, ok := p.Samples[r.Outcome]; !ok || idx < s.Index {
		p.Samples[r.Outcome] = sampleCase{idx, c.String(), r.Outcome}
	}
	for _, v := range r.Viols {
		si := p.Sigs[v.Sig]
		if si == nil {
			si = &sigInfo{FirstIndex: idx, First: v}
			p.Sigs[v.Sig] = si
		} else if idx < si.FirstIndex {
			si.FirstIndex, si.First = idx, v
		}
		si.Count++
	}
}

func (p *part) merge(q *part) {
	p.Trees += q.Trees
	p.Evaluations += q.Evaluations
	p.LinkReached += q.LinkReached
	p.Nontrivial += q.Nontrivial
	p.Protected += q.Protected
	p.LinkFree += q.LinkFree
	p.Mutated += q.Mutated
	for k, v := range q.ByBackend {
		p.ByBackend[k] += v
	}
	for k, v := range q.ByOp {
		p.ByOp[k] += v
	}
	for k, v := range q.ByLinkKind {
		p.ByLinkKind[k] += v
	}
	for k, v := range q.Outcomes {
		p.Outcomes[k] += v
	}
	for k, s := range q.Samples {
		if t, ok := p.Samples[k]; !ok || s.Index < t.Index {
			p.Samples[k] = s
		}
	}
	for k, s := range q.Sigs {
		t := p.Sigs[k]
		if t == nil {
			cp := *s
			p.Sigs[k] = &cp
			continue
		}
		t.Count += s.Count
		if s.FirstIndex < t.FirstIndex {
			t.FirstIndex, t.First = s.FirstIndex, s.First
		}
	}
	p.EngineErrors = append(p.EngineErrors, q.EngineErrors...)
	p.DeadlineHit = p.DeadlineHit || q.DeadlineHit
}

func deadline() time.Duration {
	if ev.Thorough() {
		return 13 * time.Minute
	}
	return 100 * time.Second
}

// work runs the trees of one shard.
func work(base string, shard, n int) *part {
	p := newPart()
	r := &runner{base: base, slot: strconv.Itoa(shard), osRaw: filesystem.NewExtendedOsFs()}
	start := time.Now()
	var idx int64
	forEachTree(theBound(), func(treeIdx int, cases []Case) {
		first := idx
		idx += int64(len(cases))
		if treeIdx%n != shard || p.DeadlineHit {
			return
		}
		if time.Since(start) > deadline() {
			p.DeadlineHit = true // ends the run with exhaustive=false, never with a verdict
			return
		}
		p.Trees++
		for k := range cases {
			if traceCases {
				fmt.Fprintf(os.Stderr, "%s case %d: %s\n", time.Now().Format("15:04:05.000"), first+int64(k), cases[k].String())
			}
			p.add(first+int64(k), &cases[k], r.run(&cases[k]))
		}
	})
	return p
}

// ---- coordinator ----------------------------------------------------------------------------------

const unprivileged = 65534

var traceCases = os.Getenv("C04_TRACE") != "" // development aid: print every case before it runs

// ---- two removals of one tree from two goroutines -----------------------------------------------------------
//
// One removal (A) is held right before its k-th backend operation, for every k, while another removal (B) of the same
// path through the same filesystem object runs from start to end; then A is let go. In-memory backend. What is judged is
// B: a removal without exclusion patterns that reports success has left nothing; one with the pattern "keep" has left
// nothing but what the pattern protects. (If B does not return within 200 ms while A is held, A is let go first: a
// fall-back for implementations that make B wait for A, not an oracle — both calls only ever remove, so whatever is left
// when B has reported success was left by B.)
type holdHook struct {
	mu       sync.Mutex
	k, seen  int
	parked   bool
	reached  chan struct{}
	released chan struct{}
}

func (h *holdHook) Before(op *vfsx.Op) *vfsx.Inject {
	h.mu.Lock()
	mine := !h.parked && h.seen == h.k
	if mine {
		h.parked = true
	}
	if !h.parked || mine {
		h.seen++
	}
	h.mu.Unlock()
	if mine {
		close(h.reached)
		<-h.released
	}
	return nil
}
func (h *holdHook) After(*vfsx.Op) {}

func concurrentRemovals(rep *ev.Reporter) (schedules int) {
	type removal struct {
		name string
		run  func(fs filesystem.FS) error
	}
	ctx := context.Background()
	rmEx := removal{"RemoveWithExclusionPatterns(keep)", func(fs filesystem.FS) error {
		return fs.RemoveWithContextAndExclusionPatterns(ctx, "/T", "keep")
	}}
	cleanEx := removal{"CleanDirWithExclusionPatterns(keep)", func(fs filesystem.FS) error {
		return fs.CleanDirWithContextAndExclusionPatterns(ctx, "/T", "keep")
	}}
	rm := removal{"Rm", func(fs filesystem.FS) error { return fs.Rm("/T") }}
	rmCtx := removal{"RemoveWithContext", func(fs filesystem.FS) error { return fs.RemoveWithContext(ctx, "/T") }}
	files := []string{"/T/sub/data.txt", "/T/sub/keep.me", "/T/top.txt", "/T/other/deep/x.txt"}
	for _, pair := range [][2]removal{{rmEx, rm}, {cleanEx, rm}, {rmEx, rmCtx}, {rm, rmEx}, {rm, rm}} {
		a, b := pair[0], pair[1]
		for k := 0; ; k++ {
			raw := afero.NewMemMapFs()
			for _, f := range files {
				_ = raw.MkdirAll(filepath.Dir(f), 0o755)
				_ = afero.WriteFile(raw, f, []byte("content of "+f), 0o644)
			}
			h := &holdHook{k: k, reached: make(chan struct{}), released: make(chan struct{})}
			fs := filesystem.NewVirtualFileSystem(vfsx.NewMem(raw, vfsx.NewShared(h), 0), filesystem.InMemoryFS, filesystem.IdentityPathConverterFunc)
			doneA := make(chan error, 1)
			go func() { doneA <- a.run(fs) }()
			held := false
			select {
			case <-h.reached:
				held = true
			case <-doneA:
			}
			if !held {
				break // k is beyond A's last operation: every instant has been covered
			}
			schedules++
			doneB := make(chan error, 1)
			go func() { doneB <- b.run(fs) }()
			var errB error
			waited := false
			select {
			case errB = <-doneB:
			case <-time.After(200 * time.Millisecond):
				waited = true
				close(h.released)
				errB = <-doneB
			}
			var left []string
			_ = afero.Walk(raw, "/T", func(p string, _ os.FileInfo, err error) error {
				if err == nil {
					left = append(left, p)
				}
				return nil
			})
			if !waited {
				close(h.released)
			}
			<-doneA
			if errB != nil {
				continue // B may fail (entries vanish under it); it may not claim a success it did not achieve
			}
			bad := ""
			for _, p := range left {
				protected := b.name == rmEx.name && (p == "/T" || p == "/T/sub" || p == "/T/sub/keep.me")
				if !protected {
					bad = p
					break
				}
			}
			if bad != "" {
				sort.Strings(left)
				rep.Violation(fmt.Sprintf("two-goroutines:success-but-not-gone:%s:while=%s", b.name, a.name), map[string]any{"held": a.name, "held_before_backend_operation": k, "undisturbed": b.name, "left_behind": left, "b_had_to_wait_for_a": waited})
				break // the first instant is the one to keep; the pair is not pursued
			}
		}
	}
	return
}

func TestC04(t *testing.T) {
	if w := os.Getenv("C04_WORKER"); w != "" {
		var shard, n int
		if _, err := fmt.Sscanf(w, "%d/%d", &shard, &n); err != nil || n < 1 {
			t.Fatalf("bad C04_WORKER %q", w)
		}
		base := os.Getenv("C04_BASE")
		mustBeSandbox(base)
		var p *part
		if rp := os.Getenv("C04_REPLAY_CASE"); rp != "" {
			p = replayOne(base, rp)
		} else {
			p = work(base, shard, n)
		}
		b, err := json.Marshal(p)
		if err != nil {
			t.Fatal(err)
		}
		if err := os.WriteFile(filepath.Join(base, fmt.Sprintf("part%d.json", shard)), b, 0o644); err != nil {
			t.Fatal(err)
		}
		return
	}

	rep := ev.NewReporter("C04", "exploration")
	base, err := os.MkdirTemp("/dev/shm", "verif-c04-")
	if err != nil {
		rep.EngineError("no sandbox under /dev/shm: %v", err)
		rep.Finish()
		return
	}
	mustBeSandbox(base)
	defer func() {
		mustBeSandbox(base)
		_ = filepath.WalkDir(base, func(p string, d os.DirEntry, err error) error {
			if err == nil && d.IsDir() {
				_ = os.Chmod(p, 0o700)
			}
			return nil
		})
		_ = os.RemoveAll(base)
	}()
	drop := os.Geteuid() == 0
	if drop {
		if err := os.Chown(base, unprivileged, unprivileged); err != nil {
			drop = false
		}
	}
	_ = os.Chmod(base, 0o755)

	workers := ev.Workers()
	replayCase := ""
	if rp := os.Getenv("VERIF_REPLAY"); rp != "" {
		b, err := os.ReadFile(rp)
		if err != nil {
			rep.EngineError("cannot read the replay file: %v", err)
			rep.Finish()
			return
		}
		if strings.Contains(string(b), "\"signature\": \"two-goroutines:") { // the whole (small) family is run again
			rep.Coverage["two_goroutine_removal_schedules"] = concurrentRemovals(rep)
			rep.Coverage["evaluations"], rep.Coverage["distinct_nontrivial"], rep.Coverage["exhaustive"] = 1, 1, false
			rep.Finish()
			return
		}
		var doc struct {
			Replay struct {
				Detail struct {
					Case json.RawMessage `json:"case"`
				} `json:"detail"`
			} `json:"replay"`
		}
		if err := json.Unmarshal(b, &doc); err != nil || len(doc.Replay.Detail.Case) == 0 {
			rep.EngineError("the replay file holds no case: %v", err)
			rep.Finish()
			return
		}
		replayCase = string(doc.Replay.Detail.Case)
		workers = 1
	}

	self, err := os.Executable()
	if err != nil {
		rep.EngineError("cannot find the test binary: %v", err)
		rep.Finish()
		return
	}
	spawn := func(dropPrivileges bool) (*part, []string) {
		parts := make([]*part, workers)
		errs := make([]string, workers)
		var wg sync.WaitGroup
		for i := 0; i < workers; i++ {
			wg.Add(1)
			go func(i int) {
				defer wg.Done()
				cmd := exec.Command(self, "-test.run=^TestC04$", "-test.timeout=0", "-test.count=1")
				cmd.Env = append(os.Environ(), fmt.Sprintf("C04_WORKER=%d/%d", i, workers), "C04_BASE="+base, "GOMAXPROCS=1", "C04_REPLAY_CASE="+replayCase)
				cmd.Dir = base
				if dropPrivileges {
					cmd.SysProcAttr = &syscall.SysProcAttr{Credential: &syscall.Credential{Uid: unprivileged, Gid: unprivileged}}
				}
				out, err := cmd.CombinedOutput()
				pf := filepath.Join(base, fmt.Sprintf("part%d.json", i))
				b, rerr := os.ReadFile(pf)
				_ = os.Remove(pf)
				if rerr != nil {
					o := string(out)
					if len(o) > 1500 {
						o = o[len(o)-1500:]
					}
					errs[i] = fmt.Sprintf("worker %d produced no result (%v): %s", i, err, o)
					return
				}
				parts[i] = newPart()
				if err := json.Unmarshal(b, parts[i]); err != nil {
					errs[i] = fmt.Sprintf("worker %d result does not parse: %v", i, err)
				}
			}(i)
		}
		wg.Wait()
		total := newPart()
		var el []string
		for i := range parts {
			if errs[i] != "" {
				el = append(el, errs[i])
			} else {
				if parts[i].Uid != 0 {
					total.Uid = parts[i].Uid
				}
				total.merge(parts[i])
			}
		}
		return total, el
	}
	total, errs := spawn(drop)
	if drop && len(errs) == workers {
		// privileges cannot be dropped in this environment: run as we are (the guard layer and the path checks remain)
		drop = false
		total, errs = spawn(false)
	}
	for _, e := range errs {
		rep.EngineError("%s", e)
	}
	for _, e := range total.EngineErrors {
		rep.EngineError("%s", e)
	}

	sigs := make([]string, 0, len(total.Sigs))
	for s := range total.Sigs {
		sigs = append(sigs, s)
	}
	sort.Strings(sigs)

	outcomes := make([]string, 0, len(total.Outcomes))
	for o := range total.Outcomes {
		outcomes = append(outcomes, o)
	}
	sort.Strings(outcomes)
	var samples []any
	for _, o := range outcomes {
		if len(samples) < 12 {
			samples = append(samples, total.Samples[o])
		}
	}
	if replayCase != "" {
		// a replay re-runs one stored case five times and reports what it sees; it writes no evidence file
		for _, o := range outcomes {
			fmt.Printf("REPLAY property=C04 outcome=%s runs=%d\n", o, total.Outcomes[o])
		}
		for _, e := range append(errs, total.EngineErrors...) {
			fmt.Printf("ENGINE-ERROR: property=C04 %s\n", e)
			ev.ExitCode = 2
		}
		for _, s := range sigs {
			b, _ := json.Marshal(total.Sigs[s].First.Detail)
			fmt.Printf("REPLAY property=C04 detail=%s\n", b)
			if rep.IsKnown(s) {
				fmt.Printf("KNOWN-FINDING: property=C04 signature=%s runs=%d\n", s, total.Sigs[s].Count)
				continue
			}
			fmt.Printf("VIOLATION property=C04 replay=%s signature=%s runs=%d\n", os.Getenv("VERIF_REPLAY"), s, total.Sigs[s].Count)
			if ev.ExitCode == 0 {
				ev.ExitCode = 1
			}
		}
		fmt.Printf("RESULT property=C04 replay violations=%d\n", len(sigs))
		return
	}
	for _, s := range sigs {
		si := total.Sigs[s]
		rep.ViolationN(s, map[string]any{"index": si.FirstIndex, "detail": si.First.Detail}, si.Count)
	}
	b := theBound()
	rep.Coverage["two_goroutine_removal_schedules"] = concurrentRemovals(rep)
	rep.Coverage["evaluations"] = total.Evaluations
	rep.Coverage["distinct_nontrivial"] = total.Nontrivial
	rep.Coverage["rule"] = "a case counts when the removal code reached the mechanism the property is about: the trace of backend calls contains a call on a symbolic link of the tree or through one (link_reached), or the tree held an entry protected by the exclusion pattern given (protected); every case is a distinct (backend, shape, links, read-only entry, entry point, pattern) tuple"
	rep.Coverage["cases_link_reached"] = total.LinkReached
	rep.Coverage["cases_with_protected_entry"] = total.Protected
	rep.Coverage["cases_link_free"] = total.LinkFree
	rep.Coverage["cases_with_a_successful_mutating_call"] = total.Mutated
	rep.Coverage["trees"] = total.Trees
	rep.Coverage["by_backend"] = total.ByBackend
	rep.Coverage["by_entry_point"] = total.ByOp
	rep.Coverage["by_link_kind"] = total.ByLinkKind
	rep.Coverage["bound"] = b
	rep.Coverage["bound_text"] = fmt.Sprintf("every level-order shape of: <=%d entries without link (both backends, one entry read-only or none); <=%d entries x every decoration with one non-loop link (<=%d entries: relative link texts and read-only variants too); <=%d entries x every one loop link AN/UP (<=%d: relative / read-only too); <=%d entries x every unordered pair of non-loop links; <=%d entries x {loop link, link that is no directory alias}; 9 link kinds x every location x every target; 11 entry points (4 representative ones for pairs; no garbage collection with aliasing links); patterns {none, name of one entry or link}", b.N0, b.N1, b.N1Full, b.NL, b.NLFull, b.N2, b.N2L)
	rep.Coverage["exhaustive"] = !total.DeadlineHit && len(errs) == 0 && len(total.EngineErrors) == 0
	rep.Coverage["distinct_observed_outcomes"] = len(outcomes)
	rep.Coverage["outcomes"] = total.Outcomes
	rep.Coverage["samples"] = samples
	rep.Coverage["privileges_dropped_to_uid"] = total.Uid
	rep.Coverage["workers"] = workers
	rep.Assume = []string{
		"OS backend = tmpfs under /dev/shm on Linux; link semantics are the kernel's",
		"garbage collection with links that alias entries of the tree is not run (its result depends on the Go scheduler; C04 quantifies over inputs)",
		"RemoveWithPrivileges is not run (falls back to sudo rm -rf)",
		"the root handed to the entry point is a real directory, never itself a link",
		fmt.Sprintf("worker processes ran with uid %d (read-only entries only bind an unprivileged user)", total.Uid),
	}
	rep.Finish()
}

func replayOne(base, caseJSON string) *part {
	p := newPart()
	var c Case
	if err := json.Unmarshal([]byte(caseJSON), &c); err != nil {
		p.EngineErrors = append(p.EngineErrors, "replay case does not parse: "+err.Error())
		return p
	}
	r := &runner{base: base, slot: "0", osRaw: filesystem.NewExtendedOsFs()}
	p.Trees = 1
	for i := 0; i < 5; i++ { // a violation is believed only after identical replays
		p.add(0, &c, r.run(&c))
	}
	return p
}

package c04

import (
	"os"
	"testing"
)

// TestPlanSize prints the size of the enumeration (development aid; runs nothing of the repository).
func TestPlanSize(t *testing.T) {
	if os.Getenv("C04_PLAN") == "" {
		t.Skip("set C04_PLAN=1")
	}
	trees, cases := 0, 0
	byLinks := map[string]int{}
	forEachTree(theBound(), func(i int, cs []Case) {
		trees++
		cases += len(cs)
		if len(cs) > 0 {
			k := cs[0].Backend
			for _, l := range cs[0].Links {
				if l.loop() {
					k += "+" + l.Kind
				} else {
					k += "+plain"
				}
			}
			byLinks[k] += len(cs)
		}
	})
	t.Logf("trees=%d cases=%d byLinks=%v", trees, cases, byLinks)
	for n := 0; n <= 5; n++ {
		t.Logf("shapes(%d)=%d", n, len(shapes(n)))
	}
}

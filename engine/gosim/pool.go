package gosim

import (
	"bufio"
	"encoding/json"
	"fmt"
	"os"
	"os/exec"
	"sync"
	"testing"
	"time"
)

// Scenario is a named closed system to explore.
type Scenario struct {
	Name    string
	Opts    Options
	Body    func(x *Exec)
	Outcome func(r *Result) string
	// LeakIsViolation: see Explorer.
	LeakIsViolation bool
}

type poolReq struct {
	Scenario string `json:"s"`
	Items    []Work `json:"w"`
	Quota    int64  `json:"q"`
}

type poolResp struct {
	Stats *Stats `json:"stats"`
	Rest  []Work `json:"rest"`
}

// IsPoolWorker tells whether this process was started by ExplorePool as a worker.
func IsPoolWorker() bool { return os.Getenv("VERIF_POOL_WORKER") == "1" }

// ServePool is the worker side: it reads requests from fd 3 and answers on fd 4 until fd 3 closes.
func ServePool(t *testing.T, scenarios []Scenario) {
	byName := map[string]*Scenario{}
	for i := range scenarios {
		byName[scenarios[i].Name] = &scenarios[i]
	}
	in := bufio.NewReaderSize(os.NewFile(3, "pool-in"), 1<<20)
	out := os.NewFile(4, "pool-out")
	dec := json.NewDecoder(in)
	enc := json.NewEncoder(out)
	for {
		var req poolReq
		if err := dec.Decode(&req); err != nil {
			return
		}
		sc := byName[req.Scenario]
		if sc == nil {
			t.Fatalf("unknown scenario %q", req.Scenario)
		}
		e := &Explorer{Opts: sc.Opts, Scenario: sc.Name, Body: sc.Body, Outcome: sc.Outcome, Stack: req.Items, Quota: req.Quota, LeakIsViolation: sc.LeakIsViolation}
		if e.Stack == nil {
			e.Stack = []Work{}
		}
		e.Explore(t)
		if err := enc.Encode(&poolResp{Stats: e.Stats, Rest: e.Stack}); err != nil {
			return
		}
	}
}

type poolWorker struct {
	cmd *exec.Cmd
	enc *json.Encoder
	dec *json.Decoder
	w   *os.File
}

// ExplorePool explores every scenario completely (within its bound) on n worker processes with dynamic
// load balancing: a worker receives a batch of unexplored nodes, runs at most `quota` executions of
// depth-first search below them and hands the rest back. It returns the merged statistics per scenario.
func ExplorePool(t *testing.T, scenarios []Scenario, n int, deadline time.Time) map[string]*Stats {
	res := map[string]*Stats{}
	type item struct {
		sc string
		w  Work
	}
	var mu sync.Mutex
	cond := sync.NewCond(&mu)
	queues := map[string][]Work{}
	var order []string
	for _, sc := range scenarios {
		res[sc.Name] = NewStats()
		queues[sc.Name] = []Work{{}}
		order = append(order, sc.Name)
	}
	busy := 0
	capped := false
	var firstErr error
	const quota = 150
	const batch = 8
	const stuckAfter = 4 * time.Minute
	// take returns a batch of items of one scenario, or ok=false when everything is done.
	take := func() (string, []Work, bool) {
		mu.Lock()
		defer mu.Unlock()
		for {
			if firstErr != nil {
				return "", nil, false
			}
			if !deadline.IsZero() && time.Now().After(deadline) {
				for _, name := range order {
					if len(queues[name]) > 0 {
						capped = true
						res[name].Capped = true
						res[name].CapReason = "deadline reached with unexplored nodes left"
						queues[name] = nil
					}
				}
			}
			for _, name := range order {
				q := queues[name]
				if len(q) == 0 {
					continue
				}
				k := batch
				if k > len(q) {
					k = len(q)
				}
				// take from the end (deepest nodes first keeps the queue small)
				items := append([]Work(nil), q[len(q)-k:]...)
				queues[name] = q[:len(q)-k]
				busy++
				return name, items, true
			}
			if busy == 0 {
				return "", nil, false
			}
			cond.Wait()
		}
	}
	var wg sync.WaitGroup
	for i := 0; i < n; i++ {
		wg.Add(1)
		go func(i int) {
			defer wg.Done()
			inR, inW, _ := os.Pipe()
			outR, outW, _ := os.Pipe()
			cmd := exec.Command(os.Args[0], "-test.run=^"+t.Name()+"$", "-test.timeout=0", "-test.count=1")
			// one P and no asynchronous preemption: goroutines woken at the same virtual instant run in run-queue
			// order until they block, so that e.g. their draws from the (seeded) global math/rand source are ordered
			cmd.Env = append(os.Environ(), "VERIF_POOL_WORKER=1", "GOMAXPROCS=1", "GODEBUG=asyncpreemptoff=1")
			cmd.ExtraFiles = []*os.File{inR, outW}
			cmd.Stderr = os.Stderr
			if err := cmd.Start(); err != nil {
				mu.Lock()
				firstErr = err
				cond.Broadcast()
				mu.Unlock()
				return
			}
			inR.Close()
			outW.Close()
			enc := json.NewEncoder(inW)
			dec := json.NewDecoder(bufio.NewReaderSize(outR, 1<<20))
			for {
				name, items, ok := take()
				if !ok {
					break
				}
				err := enc.Encode(&poolReq{Scenario: name, Items: items, Quota: quota})
				var resp poolResp
				if err == nil {
					// a batch is a few hundred executions of milliseconds each. A worker that does not answer for minutes is
					// stuck inside ONE execution: the controller waits for the bubble to settle and it never does — a goroutine of
					// the code under test is blocked on something created outside the execution (a package-level channel or lock),
					// which the bubble does not count as durably blocked. That cannot be told from a defect of the harness, so it
					// is an engine error, but the check must end.
					got := make(chan error, 1)
					go func() { got <- dec.Decode(&resp) }()
					select {
					case err = <-got:
					case <-time.After(stuckAfter):
						_ = cmd.Process.Kill()
						err = fmt.Errorf("no answer for %v: an execution never settles (a goroutine blocked on a channel or lock created outside the execution, e.g. at package level?)", stuckAfter)
					}
				}
				mu.Lock()
				busy--
				if err != nil {
					if firstErr == nil {
						firstErr = fmt.Errorf("pool worker %d failed on scenario %s: %v", i, name, err)
					}
				} else {
					res[name].Merge(resp.Stats)
					if len(resp.Rest) > 0 {
						queues[name] = append(queues[name], resp.Rest...)
					}
				}
				cond.Broadcast()
				mu.Unlock()
				if err != nil {
					break
				}
			}
			inW.Close()
			_ = cmd.Wait()
			outR.Close()
		}(i)
	}
	wg.Wait()
	if firstErr != nil {
		t.Errorf("ENGINE-ERROR: %v", firstErr)
		for _, s := range res {
			s.Diverged = append(s.Diverged, firstErr.Error())
		}
	}
	for name, s := range res {
		if !s.Capped {
			for _, sc := range scenarios {
				if sc.Name == name {
					s.BoundDone = sc.Opts.Bound
				}
			}
		}
	}
	_ = capped
	return res
}

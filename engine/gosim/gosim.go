// Package gosim is a controlled scheduler with a controlled clock for unmodified goroutine code,
// plus a deviation-bounded stateless DFS over its schedules.
//
// One execution = one testing/synctest bubble. The bubble's root goroutine is the controller.
// Logical threads are goroutines that block at gates (Exec.Gate); the controller waits until every
// other goroutine of the bubble is gated, finished or durably blocked (synctest.Wait), then releases
// exactly one gated thread, or lets virtual time pass (TICK). All choices are recorded, so a schedule is a
// list of small integers that can be replayed.
package gosim

import (
	"context"
	"fmt"
	"hash/fnv"
	"math/rand"
	"runtime"
	"sort"
	"strings"
	"sync"
	"testing"
	"testing/synctest"
	"time"
)

// Options of one exploration.
type Options struct {
	// Bound is the deviation budget (preemptions + delaying ticks).
	Bound int
	// StepAdvance is the virtual time added before every released step (0 = steps take no time).
	StepAdvance time.Duration
	// Horizon is the longest stretch of virtual time one TICK may cover without anything arriving at a gate.
	Horizon time.Duration
	// MaxSteps ends an execution (verdict "step cap") after that many controller steps.
	MaxSteps int
	// AllowTick says whether TICK may be offered as a *choice* while threads are enabled
	// (a forced tick, when nothing is enabled, is always taken). nil = always.
	AllowTick func(x *Exec, enabled []*Thread) bool
	// DelayBound switches from preemption bounding (a switch is free when the running thread blocked) to delay
	// bounding (Emmi, Qadeer, Rakamaric 2011): the default scheduler is deterministic — continue the running
	// thread, else the enabled thread with the lowest id — and EVERY departure from its choice costs one
	// deviation. The number of executions within a bound no longer multiplies with the number of blocking points.
	DelayBound bool
	// Drain keeps scheduling background threads after the harness threads finished, until nothing is
	// enabled and no timer fires within the horizon; goroutines still blocked then are reported as a leak.
	Drain bool
	// Independent, if set, declares that the pending operations of two gated threads commute and do not
	// affect each other's result; used only for sleep-set style pruning of preemptions (nil = none).
	SkipPreempt func(x *Exec, running *Thread, other *Thread) bool
}

// Thread is a logical thread of an execution.
type Thread struct {
	ID      int
	Name    string
	Client  int
	Harness bool // must finish for the execution to be complete
	goid    uint64
	ch      chan bool
	gated   bool
	pending string
	First   string // label of the first gate this thread reached
	done    bool
	dead    bool
	Obs     uint64 // hash of everything this thread observed so far
	Steps   int
	chooseN int // > 1: the pending gate also asks for a data choice in 0..chooseN-1
	chosen  int
}

func (t *Thread) Pending() string { return t.pending }
func (t *Thread) Gated() bool     { return t.gated }
func (t *Thread) Done() bool      { return t.done }

// Point is one scheduling decision of an execution.
type Point struct {
	N           int    // number of alternatives (enabled threads, + 1 if TICK was offered)
	Tick        bool   // TICK offered as last alternative
	LastEnabled bool   // alternative 0 continues the thread that ran last
	Sig         uint64 // hash of (ids, pending labels) of the alternatives: the replay assertion
	CostBefore  int    // deviations spent before this point
}

// Violation reported by a harness oracle.
type Violation struct {
	Signature string
	Detail    string
}

// Exec is one execution.
type Exec struct {
	T       *testing.T
	opts    *Options
	mu      sync.Mutex
	threads []*Thread
	byGo    map[uint64]*Thread
	fresh   []*Thread // registered during the current step, ids not yet assigned
	arrive  chan struct{}
	last    *Thread
	killed  bool

	prefix  []int
	expect  []uint64
	Points  []Point
	Choices []int
	Trace   []string
	cost    int
	delays  int
	frozen  bool
	ctrl    uint64   // goroutine id of the controller: its own calls of Gate (set-up, end-state oracles, clean-up) pass through
	cleanup []func() // run by the controller at tear-down (e.g. closing objects whose background goroutines would otherwise never end)

	Viol     *Violation
	Verdict  string // "complete", "violation", "blocked", "stepcap", "diverged"
	Diverged string

	ctx    context.Context
	cancel context.CancelFunc
	start  time.Time

	// OnStep is called by the controller after every step has settled (all threads gated/blocked).
	OnStep func(x *Exec)
	// AtEnd is called by the controller when the execution is over (before tear-down), for end-state oracles.
	AtEnd func(x *Exec)
	// User data of the harness.
	User any
}

// Ctx is the root context of the execution; it is cancelled at tear-down.
func (x *Exec) Ctx() context.Context { return x.ctx }

// Elapsed is the virtual time since the execution began.
func (x *Exec) Elapsed() time.Duration { return time.Since(x.start) }

// Threads returns the registered threads (ids assigned).
func (x *Exec) Threads() []*Thread { return x.threads }

// Cleanup registers a function the controller runs at tear-down, whatever the verdict.
func (x *Exec) Cleanup(f func()) { x.cleanup = append(x.cleanup, f) }

// Freeze ends the exploration part of an execution: from now on the controller follows the default
// scheduler and offers no alternatives (used for a sequential epilogue such as a verdict at quiescence).
func (x *Exec) Freeze() { x.frozen = true }

// Delays is the number of delaying ticks taken so far (ticks chosen while some thread was enabled).
func (x *Exec) Delays() int { return x.delays }

// Cost is the number of deviations spent so far.
func (x *Exec) Cost() int { return x.cost }

// Note appends a non-gating event to the trace.
func (x *Exec) Note(format string, a ...any) {
	s := fmt.Sprintf(format, a...)
	x.mu.Lock()
	x.Trace = append(x.Trace, fmt.Sprintf("    [%v] %s", time.Since(x.start), s))
	x.mu.Unlock()
}

// Violate records the first violation of this execution.
func (x *Exec) Violate(sig, format string, a ...any) {
	x.mu.Lock()
	if x.Viol == nil {
		x.Viol = &Violation{Signature: sig, Detail: fmt.Sprintf(format, a...)}
	}
	x.mu.Unlock()
}

// Go starts a harness thread. Ids are assigned in call order, before the first controller step.
func (x *Exec) Go(name string, client int, fn func()) *Thread {
	th := &Thread{Name: name, Client: client, Harness: true, ch: make(chan bool)}
	x.mu.Lock()
	th.ID = len(x.threads)
	x.threads = append(x.threads, th)
	x.mu.Unlock()
	ready := make(chan struct{})
	go func() {
		x.mu.Lock()
		th.goid = goid()
		x.byGo[th.goid] = th
		x.mu.Unlock()
		close(ready)
		defer func() {
			if r := recover(); r != nil {
				buf := make([]byte, 4096)
				buf = buf[:runtime.Stack(buf, false)]
				x.Violate("panic", "thread %s panicked: %v\n%s", name, r, buf)
			}
			x.mu.Lock()
			th.done = true
			th.gated = false
			x.mu.Unlock()
			x.signal()
		}()
		fn()
	}()
	<-ready
	return th
}

func (x *Exec) signal() {
	select {
	case x.arrive <- struct{}{}:
	default:
	}
}

// Current returns the thread of the calling goroutine (nil if it is not registered).
func (x *Exec) Current() *Thread {
	g := goid()
	x.mu.Lock()
	defer x.mu.Unlock()
	return x.byGo[g]
}

// Gate blocks the calling goroutine until the controller releases it. A goroutine that is not yet
// known is registered as a background thread of `client`.
func (x *Exec) Gate(client int, label string) { x.gate(client, label, 0) }

// GateChoose is a scheduling point that also asks the explorer for a value in 0..n-1 (a data choice:
// every alternative is free of cost). Used for "which ready select case wins".
func (x *Exec) GateChoose(client int, label string, n int) int { return x.gate(client, label, n) }

func (x *Exec) gate(client int, label string, n int) int {
	g := goid()
	if g == x.ctrl {
		return 0 // the controller is not a thread of the system under test
	}
	x.mu.Lock()
	if x.killed {
		x.mu.Unlock()
		runtime.Goexit()
	}
	th := x.byGo[g]
	if th == nil {
		th = &Thread{ID: -1, Name: "bg", Client: client, ch: make(chan bool), goid: g}
		x.byGo[g] = th
		x.fresh = append(x.fresh, th)
	}
	if th.dead {
		x.mu.Unlock()
		runtime.Goexit()
	}
	th.gated = true
	th.pending = label
	th.chooseN = n
	if th.First == "" {
		th.First = label
	}
	x.mu.Unlock()
	x.signal()
	ok := <-th.ch
	if !ok {
		runtime.Goexit()
	}
	return th.chosen
}

// Observe folds a result into the calling thread's observation hash.
func (x *Exec) Observe(s string) {
	g := goid()
	x.mu.Lock()
	if th := x.byGo[g]; th != nil {
		h := fnv.New64a()
		var b [8]byte
		for i := 0; i < 8; i++ {
			b[i] = byte(th.Obs >> (8 * i))
		}
		h.Write(b[:])
		h.Write([]byte(s))
		th.Obs = h.Sum64()
	}
	x.mu.Unlock()
}

// KillClient makes every present and future thread of the client exit at its next gate without
// performing the gated operation: "the process stopped before its next backend operation".
// Must be called from the controller (OnStep) or from a thread while it is running.
func (x *Exec) KillClient(client int) {
	x.mu.Lock()
	defer x.mu.Unlock()
	for _, th := range x.byGo {
		if th.Client == client && !th.done {
			th.dead = true
			if th.gated {
				th.gated = false
				close(th.ch)
			}
			if th.Harness {
				// a thread of a stopped process may be blocked for ever on something another (killed) thread of that
				// process would have delivered: for the controller it is over
				th.done = true
			}
		}
	}
}

func (x *Exec) assignIDs() {
	x.mu.Lock()
	if len(x.fresh) > 0 {
		sort.SliceStable(x.fresh, func(i, j int) bool {
			a, b := x.fresh[i], x.fresh[j]
			if a.Client != b.Client {
				return a.Client < b.Client
			}
			return a.pending < b.pending
		})
		for _, th := range x.fresh {
			th.ID = len(x.threads)
			th.Name = fmt.Sprintf("bg%d.c%d", th.ID, th.Client)
			x.threads = append(x.threads, th)
		}
		x.fresh = nil
	}
	x.mu.Unlock()
}

func (x *Exec) enabled() []*Thread {
	x.mu.Lock()
	defer x.mu.Unlock()
	var en []*Thread
	if x.last != nil && x.last.gated {
		en = append(en, x.last)
	}
	for _, th := range x.threads {
		if th.gated && th != x.last {
			en = append(en, th)
		}
	}
	return en
}

func (x *Exec) harnessDone() bool {
	x.mu.Lock()
	defer x.mu.Unlock()
	for _, th := range x.threads {
		if th.Harness && !th.done {
			return false
		}
	}
	return true
}

// tick lets virtual time pass until something arrives at a gate / finishes, or the horizon is reached.
func (x *Exec) tick() bool {
	select {
	case <-x.arrive:
	default:
	}
	tm := time.NewTimer(x.opts.Horizon)
	select {
	case <-x.arrive:
		tm.Stop()
		return true
	case <-tm.C:
		return false
	}
}

func pointSig(en []*Thread, tick bool) uint64 {
	h := fnv.New64a()
	for _, th := range en {
		fmt.Fprintf(h, "%d:%s|", th.ID, th.pending)
	}
	if tick {
		h.Write([]byte("TICK"))
	}
	return h.Sum64()
}

func (x *Exec) loop() {
	for step := 0; ; step++ {
		synctest.Wait()
		if x.opts.StepAdvance > 0 {
			time.Sleep(x.opts.StepAdvance)
			synctest.Wait()
		}
		x.assignIDs()
		if x.OnStep != nil {
			x.OnStep(x)
		}
		if x.Viol != nil {
			x.Verdict = "violation"
			return
		}
		if x.harnessDone() && !x.opts.Drain {
			x.Verdict = "complete"
			return
		}
		if x.opts.MaxSteps > 0 && step >= x.opts.MaxSteps {
			x.Verdict = "stepcap"
			return
		}
		en := x.enabled()
		if len(en) == 0 {
			// forced tick: not a decision
			x.Trace = append(x.Trace, fmt.Sprintf("[%v] TICK (forced)", time.Since(x.start)))
			if x.harnessDone() {
				// drain mode: run what is left to quiescence
				if !x.tick() {
					x.Verdict = "complete"
					return
				}
				x.last = nil
				continue
			}
			if !x.tick() {
				x.Verdict = "blocked"
				var stuck []string
				for _, th := range x.threads {
					if th.Harness && !th.done {
						stuck = append(stuck, th.Name)
					}
				}
				x.Violate("blocked-forever:"+strings.Join(stuck, "+"), "no thread is enabled and no timer fires within %v of virtual time; unfinished: %v", x.opts.Horizon, stuck)
				return
			}
			x.last = nil
			continue
		}
		tickOffered := x.opts.AllowTick == nil || x.opts.AllowTick(x, en)
		if x.frozen {
			tickOffered = false
			en = en[:1]
		}
		n := len(en)
		if tickOffered {
			n++
		}
		p := Point{N: n, Tick: tickOffered, LastEnabled: (x.last != nil && en[0] == x.last) || x.opts.DelayBound, Sig: pointSig(en, tickOffered), CostBefore: x.cost}
		i := len(x.Points)
		choice := 0
		if i < len(x.prefix) {
			choice = x.prefix[i]
			if i < len(x.expect) && x.expect[i] != p.Sig {
				x.Verdict = "diverged"
				var alts []string
				for _, th := range en {
					alts = append(alts, fmt.Sprintf("t%d:%s", th.ID, th.pending))
				}
				tail := x.Trace
				if len(tail) > 6 {
					tail = tail[len(tail)-6:]
				}
				x.Diverged = fmt.Sprintf("point %d: alternatives differ from the recorded execution (nondeterminism not owned by the harness); here: %v tick=%v; last steps: %v", i, alts, tickOffered, tail)
				return
			}
			if choice >= n {
				x.Verdict = "diverged"
				x.Diverged = fmt.Sprintf("point %d: choice %d out of range %d", i, choice, n)
				return
			}
		}
		x.Points = append(x.Points, p)
		x.Choices = append(x.Choices, choice)
		isTick := tickOffered && choice == n-1
		if isTick {
			x.cost++ // a tick while something is enabled delays it
			x.delays++
			x.Trace = append(x.Trace, fmt.Sprintf("[%v] TICK (delaying %d enabled)", time.Since(x.start), len(en)))
			x.tick()
			x.last = nil
			continue
		}
		th := en[choice]
		if p.LastEnabled && choice != 0 {
			x.cost++
		}
		if th.chooseN > 1 {
			// a data choice made at the moment the thread is scheduled
			dp := Point{N: th.chooseN, Sig: pointSig([]*Thread{th}, false) ^ uint64(th.chooseN), CostBefore: x.cost}
			j := len(x.Points)
			val := 0
			if j < len(x.prefix) {
				val = x.prefix[j]
				if (j < len(x.expect) && x.expect[j] != dp.Sig) || val >= dp.N {
					x.Verdict = "diverged"
					x.Diverged = fmt.Sprintf("point %d: data choice differs from the recorded execution", j)
					return
				}
			}
			x.Points = append(x.Points, dp)
			x.Choices = append(x.Choices, val)
			th.chosen = val
			th.pending += fmt.Sprintf(" [choice %d/%d]", val, th.chooseN)
		}
		x.Trace = append(x.Trace, fmt.Sprintf("[%v] t%d/%s: %s", time.Since(x.start), th.ID, th.Name, th.pending))
		x.mu.Lock()
		th.gated = false
		th.Steps++
		x.last = th
		x.mu.Unlock()
		th.ch <- true
	}
}

func (x *Exec) teardown() {
	for _, f := range x.cleanup {
		f()
	}
	x.mu.Lock()
	x.killed = true
	for _, th := range x.byGo {
		if th.gated {
			th.gated = false
			close(th.ch)
		}
	}
	x.mu.Unlock()
	x.cancel()
}

// Result of one execution, detached from the bubble.
type Result struct {
	Verdict  string
	Viol     *Violation
	Diverged string
	Points   []Point
	Choices  []int
	Trace    []string
	Cost     int
	Leak     bool // goroutines of the execution were left blocked forever after tear-down
	Virtual  time.Duration
	Steps    int
	User     any
}

// RunOnce runs body under the schedule `prefix` (then default choices).
func RunOnce(t *testing.T, opts *Options, body func(x *Exec), prefix []int, expect []uint64) (res *Result) {
	res = &Result{}
	var x *Exec
	func() {
		defer func() {
			if r := recover(); r != nil {
				// synctest's "deadlock: main bubble goroutine has exited but blocked goroutines remain"
				s := fmt.Sprint(r)
				res.Leak = strings.Contains(s, "deadlock")
				if x != nil && (x.Verdict == "" || !res.Leak) {
					x.Verdict = "engine-panic: " + s
				}
			}
		}()
		synctest.Test(t, func(t *testing.T) {
			rand.Seed(1) //nolint — retry-go's jitter uses the global source: owned here
			x = &Exec{T: t, opts: opts, byGo: map[uint64]*Thread{}, arrive: make(chan struct{}, 1), prefix: prefix, expect: expect, start: time.Now(), ctrl: goid()}
			x.ctx, x.cancel = context.WithCancel(context.Background())
			body(x)
			x.loop()
			if x.AtEnd != nil && x.Verdict == "complete" {
				x.AtEnd(x)
				if x.Viol != nil {
					x.Verdict = "violation"
				}
			}
			x.teardown()
		})
	}()
	if x != nil {
		res.Verdict, res.Viol, res.Diverged = x.Verdict, x.Viol, x.Diverged
		res.Points, res.Choices, res.Trace, res.Cost = x.Points, x.Choices, x.Trace, x.cost
		res.User = x.User
		res.Steps = len(x.Trace)
	}
	return res
}

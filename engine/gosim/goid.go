package gosim

import (
	"runtime"
	"strconv"
	"unsafe"
)

func getg() uintptr

// goidOffset is the offset of the goid field in runtime.g, found at start-up by calibration against
// the id printed by runtime.Stack (0 = not found: the slow path is used).
var goidOffset uintptr

func slowGoid() uint64 {
	var buf [64]byte
	n := runtime.Stack(buf[:], false)
	b := buf[10:n] // "goroutine 123 ["
	i := 0
	for i < len(b) && b[i] != ' ' {
		i++
	}
	id, _ := strconv.ParseUint(string(b[:i]), 10, 64)
	return id
}

func init() {
	// Each probe goroutine reports, while it is alive, the offsets at which its g holds its id.
	ch := make(chan map[uintptr]bool)
	counts := map[uintptr]int{}
	const probes = 4
	for i := 0; i < probes; i++ {
		go func() {
			g, id := getg(), slowGoid()
			m := map[uintptr]bool{}
			for off := uintptr(0); off < 1024; off += 8 {
				if *(*uint64)(unsafe.Pointer(g + off)) == id {
					m[off] = true
				}
			}
			ch <- m
		}()
		for off := range <-ch {
			counts[off]++
		}
	}
	for off := uintptr(0); off < 1024; off += 8 {
		if counts[off] == probes {
			goidOffset = off
			return
		}
	}
}

func goid() uint64 {
	if goidOffset == 0 {
		return slowGoid()
	}
	return *(*uint64)(unsafe.Pointer(getg() + goidOffset))
}

package gosim

import (
	"fmt"

	"verif/engine/vfsx"
)

// FSHook turns backend calls into scheduling points of an execution.
type FSHook struct {
	X *Exec
	// Gated selects the calls that are scheduling points (nil = all). Calls on paths that only one
	// thread can ever touch need no gate: they commute with everything (a sound reduction as long as
	// the harness really keeps those paths private).
	Gated func(op *vfsx.Op) bool
	// Label renders the scheduling-point label of a call (nil = op.String()). Labels are compared across
	// runs by the replay assertion, so anything random in a path (UUIDs, temp names) must be canonicalised here.
	Label func(op *vfsx.Op) string
	// BeforeOp runs in the thread, after it was released and right before the backend call
	// (only one thread runs at a time, so it may touch harness state without locks).
	// It may return an injection (fault layer).
	BeforeOp func(op *vfsx.Op) *vfsx.Inject
	// AfterOp runs in the thread right after the backend call.
	AfterOp func(op *vfsx.Op)
}

func (h *FSHook) Before(op *vfsx.Op) *vfsx.Inject {
	if h.Gated == nil || h.Gated(op) {
		lbl := ""
		if h.Label != nil {
			lbl = h.Label(op)
		} else {
			lbl = op.String()
		}
		h.X.Gate(op.Client, lbl)
		if h.BeforeOp != nil {
			return h.BeforeOp(op)
		}
	}
	return nil
}

func (h *FSHook) After(op *vfsx.Op) {
	if h.Gated == nil || h.Gated(op) {
		e := ""
		if op.Err != nil {
			e = op.Err.Error()
		}
		h.X.Observe(fmt.Sprintf("%s=>%s|%d|%s", op.Kind, e, op.N, op.Obs))
		if h.AfterOp != nil {
			h.AfterOp(op)
		}
	}
}

#include "textflag.h"

// func getg() uintptr
TEXT ·getg(SB),NOSPLIT,$0-8
	MOVQ (TLS), AX
	MOVQ AX, ret+0(FP)
	RET

package gosim

import (
	"encoding/json"
	"fmt"
	"os"
	"sort"
	"strings"
	"testing"
	"time"
)

// Counterexample is a violating schedule.
type Counterexample struct {
	Signature string   `json:"signature"`
	Detail    string   `json:"detail"`
	Scenario  string   `json:"scenario"`
	Schedule  []int    `json:"schedule"`
	Cost      int      `json:"deviations"`
	Trace     []string `json:"trace"`
	Count     int64    `json:"count"` // executions showing this signature
	Replays   int      `json:"identical_replays"`
}

// Stats of an exploration (mergeable across shards and scenarios).
type Stats struct {
	Execs       int64                      `json:"executions"`
	Transitions int64                      `json:"transitions"`  // controller steps executed
	Nodes       int64                      `json:"nodes"`        // distinct schedule prefixes (tree nodes) visited
	Points      int64                      `json:"choice_points"`
	Verdicts    map[string]int64           `json:"verdicts"`
	Outcomes    map[string]int64           `json:"outcomes"`
	Violations  map[string]*Counterexample `json:"violations"`
	Validated   int64                      `json:"replays_identical"`
	Transient   int64                      `json:"transient_divergences"`
	Diverged    []string                   `json:"diverged"`
	Capped      bool                       `json:"capped"`
	CapReason   string                     `json:"cap_reason,omitempty"`
	BoundDone   int                        `json:"bound_completed"`
	MaxCost     int                        `json:"max_deviations_seen"`
	Samples     [][]string                 `json:"samples,omitempty"`
	WallS       float64                    `json:"wall_s"`
}

func NewStats() *Stats {
	return &Stats{Verdicts: map[string]int64{}, Outcomes: map[string]int64{}, Violations: map[string]*Counterexample{}}
}

// Merge adds o into s.
func (s *Stats) Merge(o *Stats) {
	s.Execs += o.Execs
	s.Transitions += o.Transitions
	s.Nodes += o.Nodes
	s.Points += o.Points
	s.Validated += o.Validated
	s.Transient += o.Transient
	s.WallS += o.WallS
	for k, v := range o.Verdicts {
		s.Verdicts[k] += v
	}
	for k, v := range o.Outcomes {
		s.Outcomes[k] += v
	}
	for k, v := range o.Violations {
		if cur, ok := s.Violations[k]; !ok || v.Cost < cur.Cost || (v.Cost == cur.Cost && len(v.Schedule) < len(cur.Schedule)) {
			n := *v
			if ok {
				n.Count += cur.Count
			}
			s.Violations[k] = &n
		} else {
			cur.Count += v.Count
		}
	}
	s.Diverged = append(s.Diverged, o.Diverged...)
	if o.Capped {
		s.Capped = true
		s.CapReason = o.CapReason
	}
	if o.MaxCost > s.MaxCost {
		s.MaxCost = o.MaxCost
	}
	if len(s.Samples) < 3 {
		s.Samples = append(s.Samples, o.Samples...)
		if len(s.Samples) > 3 {
			s.Samples = s.Samples[:3]
		}
	}
}

// Explorer enumerates every schedule of Body within Opts.Bound deviations.
type Explorer struct {
	Opts     Options
	Scenario string
	Body     func(x *Exec)
	// Outcome maps a finished execution to a short outcome class (for the vacuity report).
	Outcome func(r *Result) string
	// Stack holds the nodes still to explore (nil = start from the root). When Quota > 0, Explore stops
	// after that many executions and leaves the rest in Stack (for a pool to redistribute).
	Stack []Work
	Quota int64
	// Deadline / MaxExecs cap the run (a capped run is reported as not exhaustive, never as a violation).
	Deadline time.Time
	MaxExecs int64
	// LeakIsViolation reports goroutines left blocked forever at the end of an execution (Options.Drain).
	LeakIsViolation bool
	// ValidateEvery re-runs every n-th execution and compares the traces (0 = 64).
	ValidateEvery int64
	Stats         *Stats
}

// Work is one unexplored node of the schedule tree.
type Work struct {
	Prefix []int    `json:"p"`
	Expect []uint64 `json:"e"`
}

func sameTrace(a, b []string) bool {
	if len(a) != len(b) {
		return false
	}
	same := true
	for i := range a {
		if a[i] != b[i] {
			same = false
			break
		}
	}
	if same {
		return true
	}
	// The code under test may walk a Go map (unzip restores directory time stamps that way): the same steps then come in
	// another order within one thread's run between two scheduling points. Same lines, same number of each: accepted.
	strip := func(l []string) []string { // without the "[virtual time] " prefix: every step advances the clock
		o := make([]string, len(l))
		for i, s := range l {
			if j := strings.Index(s, "] "); j >= 0 && strings.HasPrefix(strings.TrimSpace(s), "[") {
				s = s[j+2:]
			}
			o[i] = s
		}
		return o
	}
	x, y := strip(a), strip(b)
	sort.Strings(x)
	sort.Strings(y)
	for i := range x {
		if x[i] != y[i] {
			return false
		}
	}
	return true
}

// firstDifference says where a re-execution of the same schedule departs from the first one.
func firstDifference(a, b *Result) string {
	switch {
	case b.Viol == nil:
		return "the re-execution shows no violation; verdict " + b.Verdict + " " + b.Diverged
	case b.Viol.Signature != a.Viol.Signature:
		return "the re-execution shows " + b.Viol.Signature
	}
	for i := range a.Trace {
		if i >= len(b.Trace) {
			return fmt.Sprintf("the re-execution's trace ends at line %d; next line of the first: %q", i, a.Trace[i])
		}
		if a.Trace[i] != b.Trace[i] {
			return fmt.Sprintf("trace line %d: %q vs %q", i, a.Trace[i], b.Trace[i])
		}
	}
	return fmt.Sprintf("the re-execution's trace is longer: %d vs %d lines", len(b.Trace), len(a.Trace))
}

// run is RunOnce plus the leak verdict.
func (e *Explorer) run(t *testing.T, prefix []int, expect []uint64) *Result {
	r := RunOnce(t, &e.Opts, e.Body, prefix, expect)
	if e.LeakIsViolation && r.Leak && r.Viol == nil && r.Verdict == "complete" {
		r.Viol = &Violation{Signature: "goroutine-left-blocked-forever", Detail: "after the call returned and everything ran to quiescence, goroutines of the execution are still blocked"}
		r.Verdict = "violation"
	}
	return r
}

// Explore runs the DFS. It returns an error only for engine problems (divergence).
func (e *Explorer) Explore(t *testing.T) {
	if e.Stats == nil {
		e.Stats = NewStats()
	}
	if e.ValidateEvery == 0 {
		e.ValidateEvery = 64
	}
	st := e.Stats
	begin := time.Now()
	stack := e.Stack
	if stack == nil {
		stack = []Work{{}}
	}
	var done int64
	defer func() { e.Stack = stack }()
	for len(stack) > 0 {
		if e.Quota > 0 && done >= e.Quota {
			break
		}
		done++
		if (!e.Deadline.IsZero() && time.Now().After(e.Deadline)) || (e.MaxExecs > 0 && st.Execs >= e.MaxExecs) {
			st.Capped = true
			st.CapReason = "deadline or execution cap reached"
			break
		}
		w := stack[len(stack)-1]
		stack = stack[:len(stack)-1]
		r := e.run(t, w.Prefix, w.Expect)
		for retry := 0; retry < 3 && r.Verdict == "diverged"; retry++ {
			// a divergence that does not reproduce is counted and reported, the node is still explored
			st.Transient++
			r = e.run(t, w.Prefix, w.Expect)
		}
		isRoot := len(w.Prefix) == 0
		countIt := true

		if r.Verdict == "diverged" || strings.HasPrefix(r.Verdict, "engine-panic") {
			st.Diverged = append(st.Diverged, fmt.Sprintf("%s schedule=%v: %s %s", e.Scenario, w.Prefix, r.Verdict, r.Diverged))
			continue
		}
		if countIt {
			st.Execs++
			st.Transitions += int64(len(r.Trace))
			st.Nodes += int64(len(r.Points) - len(w.Prefix) + 1)
			st.Points += int64(len(r.Points))
			st.Verdicts[r.Verdict]++
			if r.Cost > st.MaxCost {
				st.MaxCost = r.Cost
			}
			if e.Outcome != nil {
				st.Outcomes[e.Outcome(r)]++
			}
			if len(st.Samples) < 2 && (isRoot || st.Execs%97 == 0) {
				st.Samples = append(st.Samples, append([]string{fmt.Sprintf("scenario=%s schedule=%v verdict=%s", e.Scenario, r.Choices, r.Verdict)}, r.Trace...))
			}
			if r.Viol != nil {
				cur, ok := st.Violations[r.Viol.Signature]
				if !ok || r.Cost < cur.Cost || (r.Cost == cur.Cost && len(r.Choices) < len(cur.Schedule)) {
					ce := &Counterexample{Signature: r.Viol.Signature, Detail: r.Viol.Detail, Scenario: e.Scenario, Schedule: append([]int(nil), r.Choices...), Cost: r.Cost, Trace: r.Trace, Count: 1}
					if ok {
						ce.Count += cur.Count
					}
					// believe it only if it replays identically
					how := ""
					for k := 0; k < 2; k++ {
						r2 := e.run(t, r.Choices, nil)
						if r2.Viol != nil && r2.Viol.Signature == r.Viol.Signature && sameTrace(r2.Trace, r.Trace) {
							ce.Replays++
						} else if how == "" {
							how = firstDifference(r, r2)
						}
					}
					if ce.Replays < 2 {
						st.Diverged = append(st.Diverged, fmt.Sprintf("%s schedule=%v: violation %q did not replay identically (%s)", e.Scenario, r.Choices, r.Viol.Signature, how))
					} else {
						st.Violations[r.Viol.Signature] = ce
					}
				} else {
					cur.Count++
				}
			} else if st.Execs%e.ValidateEvery == 0 {
				r2 := e.run(t, r.Choices, nil)
				if sameTrace(r2.Trace, r.Trace) && r2.Verdict == r.Verdict {
					st.Validated++
				} else {
					st.Diverged = append(st.Diverged, fmt.Sprintf("%s schedule=%v: re-execution produced a different trace", e.Scenario, r.Choices))
				}
			}
		}
		// expand alternatives (pushed in reverse so that the earliest point is explored first)
		var kids []Work
		for i := len(w.Prefix); i < len(r.Points); i++ {
			p := r.Points[i]
			for alt := 1; alt < p.N; alt++ {
				cost := p.CostBefore
				if p.LastEnabled || (p.Tick && alt == p.N-1) {
					cost++
				}
				if cost > e.Opts.Bound {
					continue
				}
				pre := make([]int, i+1)
				copy(pre, r.Choices[:i])
				pre[i] = alt
				exp := make([]uint64, i+1)
				for k := 0; k <= i; k++ {
					exp[k] = r.Points[k].Sig
				}
				kids = append(kids, Work{pre, exp})
			}
		}
		for i := len(kids) - 1; i >= 0; i-- {
			stack = append(stack, kids[i])
		}
	}
	if !st.Capped && len(stack) == 0 {
		st.BoundDone = e.Opts.Bound
	}
	st.WallS += time.Since(begin).Seconds()
}

// LoadCounterexample reads a replay file written by the reporter.
func LoadCounterexample(path string) (*Counterexample, error) {
	b, err := os.ReadFile(path)
	if err != nil {
		return nil, err
	}
	var f struct {
		Replay Counterexample `json:"replay"`
	}
	if err := json.Unmarshal(b, &f); err != nil {
		return nil, err
	}
	return &f.Replay, nil
}

// SortedKeys helper.
func SortedKeys[V any](m map[string]V) []string {
	ks := make([]string, 0, len(m))
	for k := range m {
		ks = append(ks, k)
	}
	sort.Strings(ks)
	return ks
}

// Package evidence is the common back end of every check: tier/seed, evidence files, known findings,
// violation replays, process sharding and exit codes.
package evidence

import (
	"crypto/sha256"
	"encoding/hex"
	"encoding/json"
	"fmt"
	"os"
	"os/exec"
	"path/filepath"
	"runtime"
	"sort"
	"strconv"
	"strings"
	"sync"
	"testing"
	"time"
)

// Root of the verification tree.
func Root() string {
	if r := os.Getenv("VERIF_ROOT"); r != "" {
		return r
	}
	return "/verif"
}

// Tier is "quick" or "thorough".
func Tier() string {
	if os.Getenv("VERIF_TIER") == "thorough" {
		return "thorough"
	}
	return "quick"
}

func Thorough() bool { return Tier() == "thorough" }

// Seed only picks samples / visiting order; enumerations do not depend on it.
func Seed() int {
	n, _ := strconv.Atoi(os.Getenv("VERIF_SEED"))
	return n
}

// ExitCode is what TestMain returns: 0 held, 1 violation, 2 engine error.
var ExitCode int

var processStart = time.Now()

// Main is the TestMain body of every check package.
func Main(m *testing.M) {
	code := m.Run()
	if ExitCode != 0 {
		code = ExitCode
	} else if code != 0 {
		code = 2 // a failing test without a VIOLATION line is an engine error, never a property verdict
	}
	os.Exit(code)
}

// Finding is an entry of known_findings.json.
type Finding struct {
	Property  string `json:"property"`
	Status    string `json:"status"` // "known" | "fixed"
	Signature string `json:"signature"`
	WhatFails string `json:"what_fails"`
	Commit    string `json:"commit,omitempty"`
}

func loadKnown(id string) map[string]Finding {
	out := map[string]Finding{}
	b, err := os.ReadFile(filepath.Join(Root(), "known_findings.json"))
	if err != nil {
		return out
	}
	var all []Finding
	if err := json.Unmarshal(b, &all); err != nil {
		fmt.Fprintf(os.Stderr, "ENGINE-ERROR: known_findings.json does not parse: %v\n", err)
		ExitCode = 2
		return out
	}
	for _, f := range all {
		if f.Property == id && f.Status == "known" {
			out[f.Signature] = f
		}
	}
	return out
}

// Reporter collects what a check found.
type Reporter struct {
	ID    string
	Level string
	start time.Time
	mu    sync.Mutex
	known map[string]Finding
	// violations by signature -> first replay object
	viols     map[string]any
	violCount map[string]int64
	engineErr []string
	Coverage  map[string]any
	Assume    []string
}

func NewReporter(id, level string) *Reporter {
	return &Reporter{ID: id, Level: level, start: processStart, known: loadKnown(id), viols: map[string]any{}, violCount: map[string]int64{}, Coverage: map[string]any{}}
}

// Violation records a violating case under a signature (what the check computes from the case, never free text).
// The first case reported for a signature is kept as the replay.
func (r *Reporter) Violation(sig string, replay any) {
	r.mu.Lock()
	defer r.mu.Unlock()
	if _, ok := r.viols[sig]; !ok {
		r.viols[sig] = replay
	}
	r.violCount[sig]++
}

func (r *Reporter) ViolationN(sig string, replay any, n int64) {
	r.mu.Lock()
	defer r.mu.Unlock()
	if _, ok := r.viols[sig]; !ok {
		r.viols[sig] = replay
	}
	r.violCount[sig] += n
}

// EngineError records a problem of the machinery (exit 2; never a property verdict).
func (r *Reporter) EngineError(format string, a ...any) {
	r.mu.Lock()
	defer r.mu.Unlock()
	r.engineErr = append(r.engineErr, fmt.Sprintf(format, a...))
}

// IsKnown tells whether a signature is a listed known finding.
func (r *Reporter) IsKnown(sig string) bool {
	_, ok := r.known[sig]
	return ok
}

// Finish prints verdict lines, writes replays and the evidence file, and sets the exit code.
func (r *Reporter) Finish() {
	r.mu.Lock()
	defer r.mu.Unlock()
	sigs := make([]string, 0, len(r.viols))
	for s := range r.viols {
		sigs = append(sigs, s)
	}
	sort.Strings(sigs)
	newViol := 0
	var knownSeen []string
	for _, s := range sigs {
		if f, ok := r.known[s]; ok {
			fmt.Printf("KNOWN-FINDING: property=%s signature=%s cases=%d %s\n", r.ID, s, r.violCount[s], f.WhatFails)
			knownSeen = append(knownSeen, s)
			continue
		}
		newViol++
		h := sha256.Sum256([]byte(s))
		dir := filepath.Join(Root(), "replays", r.ID)
		_ = os.MkdirAll(dir, 0o755)
		path := filepath.Join(dir, hex.EncodeToString(h[:6])+".json")
		b, _ := json.MarshalIndent(map[string]any{"property": r.ID, "signature": s, "cases": r.violCount[s], "replay": r.viols[s]}, "", " ")
		_ = os.WriteFile(path, b, 0o644)
		fmt.Printf("VIOLATION property=%s replay=%s signature=%s cases=%d\n", r.ID, path, s, r.violCount[s])
	}
	var unseen []string
	for s := range r.known {
		if _, ok := r.viols[s]; !ok {
			unseen = append(unseen, s)
		}
	}
	sort.Strings(unseen)
	r.Coverage["known_findings_reproduced"] = knownSeen
	r.Coverage["known_findings_not_reproduced_in_this_tier"] = unseen
	r.Coverage["violation_signatures"] = sigs
	ev := map[string]any{
		"property_id": r.ID,
		"tier":        Tier(),
		"seed":        Seed(),
		"level":       r.Level,
		"coverage":    r.Coverage,
		"assumptions": r.Assume,
		"wall_s":      time.Since(r.start).Seconds(),
		"violations":  newViol,
	}
	if len(r.engineErr) > 0 {
		ev["engine_errors"] = r.engineErr
	}
	if err := validate(ev); err != nil {
		r.engineErr = append(r.engineErr, "evidence does not satisfy the schema: "+err.Error())
	}
	b, _ := json.MarshalIndent(ev, "", " ")
	_ = os.MkdirAll(filepath.Join(Root(), "evidence"), 0o755)
	if err := os.WriteFile(filepath.Join(Root(), "evidence", r.ID+".json"), append(b, '\n'), 0o644); err != nil {
		r.engineErr = append(r.engineErr, err.Error())
	}
	for i, e := range r.engineErr {
		if i >= 5 {
			fmt.Printf("ENGINE-ERROR: property=%s ... and %d more\n", r.ID, len(r.engineErr)-5)
			break
		}
		if len(e) > 3000 {
			e = e[:1000] + " … " + e[len(e)-2000:]
		}
		fmt.Printf("ENGINE-ERROR: property=%s %s\n", r.ID, e)
	}
	// a violation that was found (and re-validated by its check) decides the exit status even when some other part of the
	// run could not be carried out; without one, an engine error means "not decided" (2)
	switch {
	case newViol > 0:
		ExitCode = 1
	case len(r.engineErr) > 0:
		ExitCode = 2
	}
	fmt.Printf("RESULT property=%s tier=%s violations=%d known=%d engine_errors=%d wall=%.1fs\n", r.ID, Tier(), newViol, len(knownSeen), len(r.engineErr), time.Since(r.start).Seconds())
}

func validate(ev map[string]any) error {
	cov, _ := ev["coverage"].(map[string]any)
	need := func(keys ...string) error {
		for _, k := range keys {
			if _, ok := cov[k]; !ok {
				return fmt.Errorf("coverage.%s missing", k)
			}
		}
		return nil
	}
	asInt := func(k string) int64 {
		switch v := cov[k].(type) {
		case int:
			return int64(v)
		case int64:
			return v
		case float64:
			return int64(v)
		}
		return -1
	}
	samplesOK := func() error {
		b, _ := json.Marshal(cov["samples"])
		var l []any
		if json.Unmarshal(b, &l) != nil || len(l) < 1 {
			return fmt.Errorf("coverage.samples must be a non-empty list")
		}
		return nil
	}
	switch ev["level"] {
	case "model_checking":
		if err := need("states", "transitions", "traces_validated_against_impl", "samples"); err != nil {
			return err
		}
		if asInt("states") < 1 || asInt("transitions") < 1 || asInt("traces_validated_against_impl") < 0 {
			return fmt.Errorf("states/transitions must be >= 1")
		}
		return samplesOK()
	case "exploration", "fault_enumeration":
		if err := need("evaluations", "distinct_nontrivial", "rule", "samples"); err != nil {
			return err
		}
		if asInt("evaluations") < 1 || asInt("distinct_nontrivial") < 2 {
			return fmt.Errorf("evaluations >= 1 and distinct_nontrivial >= 2 required")
		}
		return samplesOK()
	default:
		return fmt.Errorf("unsupported level %v", ev["level"])
	}
}

// ---- process sharding ------------------------------------------------------------------------

// Workers is the number of worker processes to use.
func Workers() int {
	if n, _ := strconv.Atoi(os.Getenv("VERIF_WORKERS")); n > 0 {
		return n
	}
	n := runtime.NumCPU()
	if n > 16 {
		n = 16
	}
	return n
}

// ShardEnv reports whether this process is a shard worker, and which.
func ShardEnv() (shard, n int, ok bool) {
	s := os.Getenv("VERIF_SHARD")
	if s == "" {
		return 0, 1, false
	}
	parts := strings.Split(s, "/")
	shard, _ = strconv.Atoi(parts[0])
	n, _ = strconv.Atoi(parts[1])
	return shard, n, true
}

// Sharded runs worker in n child processes (re-executing this test binary with -test.run=^<test>$)
// and returns their results. In a child, it runs worker for the child's shard, stores the result and
// returns isWorker=true: the caller must then return at once.
func Sharded[T any](t *testing.T, n int, worker func(shard, n int) T) (results []T, isWorker bool) {
	if shard, total, ok := ShardEnv(); ok {
		res := worker(shard, total)
		b, err := json.Marshal(res)
		if err != nil {
			t.Fatalf("marshal shard result: %v", err)
		}
		if err := os.WriteFile(os.Getenv("VERIF_PART"), b, 0o644); err != nil {
			t.Fatalf("write shard result: %v", err)
		}
		return nil, true
	}
	dir := filepath.Join(Root(), ".build", "parts", fmt.Sprintf("%s-%d", strings.ReplaceAll(t.Name(), "/", "_"), os.Getpid()))
	_ = os.MkdirAll(dir, 0o755)
	defer os.RemoveAll(dir)
	results = make([]T, n)
	errs := make([]error, n)
	var wg sync.WaitGroup
	for i := 0; i < n; i++ {
		wg.Add(1)
		go func(i int) {
			defer wg.Done()
			part := filepath.Join(dir, fmt.Sprintf("part%d.json", i))
			cmd := exec.Command(os.Args[0], "-test.run=^"+t.Name()+"$", "-test.timeout=0", "-test.count=1")
			cmd.Env = append(os.Environ(), fmt.Sprintf("VERIF_SHARD=%d/%d", i, n), "VERIF_PART="+part, "GOMAXPROCS=1")
			out, err := cmd.CombinedOutput()
			b, rerr := os.ReadFile(part)
			if rerr != nil {
				errs[i] = fmt.Errorf("shard %d produced no result (%v): %s", i, err, tail(string(out), 4000))
				return
			}
			if err := json.Unmarshal(b, &results[i]); err != nil {
				errs[i] = fmt.Errorf("shard %d result does not parse: %v", i, err)
			}
		}(i)
	}
	wg.Wait()
	for _, e := range errs {
		if e != nil {
			t.Errorf("ENGINE-ERROR: %v", e)
			fmt.Printf("ENGINE-ERROR: %v\n", e)
			ExitCode = 2
		}
	}
	return results, false
}

func tail(s string, n int) string {
	if len(s) > n {
		return s[len(s)-n:]
	}
	return s
}

// Command instr rewrites repository files for a check and emits a `go test -overlay` description.
// It is re-run on /repo's current working tree by the check's prebuild step, so a change to the
// repository is what gets instrumented. The rule set is small and closed; anything it meets in a
// file it is asked to rewrite and does not recognise is an error (exit 2), not a guess.
//
//	instr -id C12 -out /verif/.build/instr-C12 \
//	      -chan parallelisation/parallelisation.go            (R1 go, R2 channel ops, R2s select)
//	      -swapsync parallelisation/cancel_functions.go       (R3: "sync"/go-deadlock -> explorer-visible shims)
//	      -builder logs/string_logger.go                      (R4: strings.Builder -> verifrt.Builder)
//	      -stdstreams logs/std_logger.go                      (R7: os.Stdout / os.Stderr -> verifrt.Stdout / verifrt.Stderr)
//	      -add subprocess/export_verif.go=/verif/checks/c18/export.go.txt   (R5: overlay-only file)
package main

import (
	"bytes"
	"encoding/json"
	"flag"
	"fmt"
	"go/ast"
	"go/format"
	"go/parser"
	"go/token"
	"os"
	"path/filepath"
	"strconv"
	"strings"
)

const (
	repoUtils   = "/repo/utils"
	modPath     = "github.com/ARM-software/golang-utils/utils"
	rtImport    = modPath + "/verifrt"
	syncImport  = modPath + "/verifrt/vsync"
	dlockImport = modPath + "/verifrt/vdeadlock"
	atomicImport = modPath + "/verifrt/vatomic"
)

type multi []string

func (m *multi) String() string     { return strings.Join(*m, ",") }
func (m *multi) Set(s string) error { *m = append(*m, s); return nil }

func fail(format string, a ...any) {
	fmt.Fprintf(os.Stderr, "ENGINE-ERROR: instr: "+format+"\n", a...)
	os.Exit(2)
}

type rewriter struct {
	fset   *token.FileSet
	file   string
	tmp    int
	usedRT bool
}

func (r *rewriter) label(pos token.Pos, what string) string {
	p := r.fset.Position(pos)
	return fmt.Sprintf("%s@%s:%d", what, filepath.Base(p.Filename), p.Line)
}

func (r *rewriter) name(prefix string) string {
	r.tmp++
	return fmt.Sprintf("_v%s%d", prefix, r.tmp)
}

func rtCall(fn string, args ...ast.Expr) *ast.CallExpr {
	return &ast.CallExpr{Fun: &ast.SelectorExpr{X: ast.NewIdent("verifrt"), Sel: ast.NewIdent(fn)}, Args: args}
}

func strLit(s string) ast.Expr { return &ast.BasicLit{Kind: token.STRING, Value: strconv.Quote(s)} }
func intLit(i int) ast.Expr    { return &ast.BasicLit{Kind: token.INT, Value: strconv.Itoa(i)} }

func (r *rewriter) gate(pos token.Pos, what string) ast.Stmt {
	r.usedRT = true
	return &ast.ExprStmt{X: rtCall("Gate", strLit(r.label(pos, what)))}
}

// hasChanOp reports whether the statement itself (not nested function literals, not nested statements
// that are rewritten on their own) contains a receive expression.
func hasRecv(n ast.Node) bool {
	found := false
	ast.Inspect(n, func(x ast.Node) bool {
		switch v := x.(type) {
		case *ast.FuncLit:
			return false
		case *ast.BlockStmt, *ast.SelectStmt:
			if x != n {
				return false
			}
		case *ast.UnaryExpr:
			if v.Op == token.ARROW {
				found = true
			}
		}
		return true
	})
	return found
}

// rewriteList rewrites a statement list in place and returns the new list.
func (r *rewriter) rewriteList(list []ast.Stmt) []ast.Stmt {
	var out []ast.Stmt
	for _, s := range list {
		out = append(out, r.rewriteStmt(s)...)
	}
	return out
}

func (r *rewriter) rewriteBlock(b *ast.BlockStmt) {
	if b != nil {
		b.List = r.rewriteList(b.List)
	}
}

// rewriteFuncLits descends into function literals found in expressions of a simple statement.
func (r *rewriter) rewriteFuncLits(n ast.Node) {
	ast.Inspect(n, func(x ast.Node) bool {
		if fl, ok := x.(*ast.FuncLit); ok {
			r.rewriteBlock(fl.Body)
			return false
		}
		return true
	})
}

func (r *rewriter) rewriteStmt(s ast.Stmt) []ast.Stmt {
	switch v := s.(type) {
	case *ast.BlockStmt:
		r.rewriteBlock(v)
		return []ast.Stmt{v}
	case *ast.IfStmt:
		if hasRecv(v.Cond) {
			fail("%s: channel receive in an if condition is not supported", r.label(v.Pos(), "if"))
		}
		if v.Init != nil && hasRecv(v.Init) {
			// `if x := <-ch; cond { ... }` becomes `{ gate; x := <-ch; if cond { ... } }`: same scope for x, the receive is
			// a statement of its own and gets its gate
			init := v.Init
			v.Init = nil
			inner := r.rewriteStmt(v)
			return []ast.Stmt{&ast.BlockStmt{List: append(r.rewriteStmt(init), inner...)}}
		}
		r.rewriteBlock(v.Body)
		if v.Else != nil {
			e := r.rewriteStmt(v.Else)
			if len(e) == 1 {
				v.Else = e[0]
			} else {
				v.Else = &ast.BlockStmt{List: e}
			}
		}
		return []ast.Stmt{v}
	case *ast.ForStmt:
		if (v.Init != nil && hasRecv(v.Init)) || (v.Cond != nil && hasRecv(v.Cond)) || (v.Post != nil && hasRecv(v.Post)) {
			fail("%s: channel receive in a for header is not supported", r.label(v.Pos(), "for"))
		}
		r.rewriteBlock(v.Body)
		return []ast.Stmt{v}
	case *ast.RangeStmt:
		r.rewriteFuncLits(v.X)
		r.rewriteBlock(v.Body)
		return []ast.Stmt{v}
	case *ast.SwitchStmt:
		for _, c := range v.Body.List {
			cc := c.(*ast.CaseClause)
			cc.Body = r.rewriteList(cc.Body)
		}
		return []ast.Stmt{v}
	case *ast.TypeSwitchStmt:
		for _, c := range v.Body.List {
			cc := c.(*ast.CaseClause)
			cc.Body = r.rewriteList(cc.Body)
		}
		return []ast.Stmt{v}
	case *ast.LabeledStmt:
		inner := r.rewriteStmt(v.Stmt)
		if len(inner) == 1 {
			v.Stmt = inner[0]
			return []ast.Stmt{v}
		}
		// gate(s) first, the label stays on the statement proper
		v.Stmt = inner[len(inner)-1]
		return append(inner[:len(inner)-1:len(inner)-1], v)
	case *ast.SelectStmt:
		return r.rewriteSelect(v)
	case *ast.GoStmt:
		return r.rewriteGo(v)
	case *ast.SendStmt:
		r.rewriteFuncLits(v)
		var pre []ast.Stmt
		switch v.Value.(type) {
		case *ast.Ident, *ast.BasicLit:
		default:
			// evaluate the value first (it may be a long-running call): the gate precedes the send itself
			tmp := r.name("sv")
			pre = append(pre, &ast.AssignStmt{Lhs: []ast.Expr{ast.NewIdent(tmp)}, Tok: token.DEFINE, Rhs: []ast.Expr{v.Value}})
			v.Value = ast.NewIdent(tmp)
		}
		return append(append(pre, r.gate(v.Pos(), "send")), v)
	case *ast.DeferStmt:
		r.rewriteFuncLits(v.Call)
		return []ast.Stmt{v}
	default:
		// simple statements: expression, assignment, return, declaration, inc/dec, branch ...
		r.rewriteFuncLits(s)
		if hasRecv(s) {
			return []ast.Stmt{r.gate(s.Pos(), "recv"), s}
		}
		if es, ok := s.(*ast.ExprStmt); ok {
			if c, ok := es.X.(*ast.CallExpr); ok {
				if id, ok := c.Fun.(*ast.Ident); ok && id.Name == "close" && len(c.Args) == 1 {
					return []ast.Stmt{r.gate(s.Pos(), "close"), s}
				}
			}
		}
		return []ast.Stmt{s}
	}
}

// rewriteGo: gate before the go statement; the spawned function's first action is ThreadStart.
func (r *rewriter) rewriteGo(g *ast.GoStmt) []ast.Stmt {
	r.usedRT = true
	lbl := r.label(g.Pos(), "go")
	start := &ast.ExprStmt{X: rtCall("ThreadStart", strLit(lbl))}
	if fl, ok := g.Call.Fun.(*ast.FuncLit); ok {
		r.rewriteBlock(fl.Body)
		fl.Body.List = append([]ast.Stmt{start}, fl.Body.List...)
		for _, a := range g.Call.Args {
			r.rewriteFuncLits(a)
		}
		return []ast.Stmt{r.gate(g.Pos(), "go"), g}
	}
	// go f(a, b...)  =>  { _f := f; _a := a; _b := b; go func(){ ThreadStart(); _f(_a, _b...) }() }
	var pre []ast.Stmt
	fn := r.name("gf")
	pre = append(pre, &ast.AssignStmt{Lhs: []ast.Expr{ast.NewIdent(fn)}, Tok: token.DEFINE, Rhs: []ast.Expr{g.Call.Fun}})
	var args []ast.Expr
	for _, a := range g.Call.Args {
		r.rewriteFuncLits(a)
		n := r.name("ga")
		pre = append(pre, &ast.AssignStmt{Lhs: []ast.Expr{ast.NewIdent(n)}, Tok: token.DEFINE, Rhs: []ast.Expr{a}})
		args = append(args, ast.NewIdent(n))
	}
	call := &ast.CallExpr{Fun: ast.NewIdent(fn), Args: args, Ellipsis: g.Call.Ellipsis}
	body := &ast.BlockStmt{List: []ast.Stmt{start, &ast.ExprStmt{X: call}}}
	goStmt := &ast.GoStmt{Call: &ast.CallExpr{Fun: &ast.FuncLit{Type: &ast.FuncType{Params: &ast.FieldList{}}, Body: body}}}
	blk := &ast.BlockStmt{List: append(append(pre, r.gate(g.Pos(), "go")), goStmt)}
	return []ast.Stmt{blk}
}

// renameObj renames every identifier bound to obj below n.
func renameObj(n ast.Node, obj *ast.Object, to string) {
	ast.Inspect(n, func(x ast.Node) bool {
		if id, ok := x.(*ast.Ident); ok && id.Obj == obj {
			id.Name = to
		}
		return true
	})
}

// rewriteSelect turns "which ready case wins" into an explorer choice:
// operands hoisted once, gate, the preferred case is tried first without blocking, then the original
// blocking select runs; bodies are not duplicated (index first, bodies in a switch).
func (r *rewriter) rewriteSelect(sel *ast.SelectStmt) []ast.Stmt {
	r.usedRT = true
	lbl := r.label(sel.Pos(), "select")
	var pre []ast.Stmt   // hoisted operands and receive-variable declarations
	var comms []ast.Stmt // communication statements using the hoisted operands, assigning (=) to declared vars
	var bodies [][]ast.Stmt
	var defBody []ast.Stmt
	hasDefault := false
	for _, c := range sel.Body.List {
		cc := c.(*ast.CommClause)
		body := r.rewriteList(cc.Body)
		if cc.Comm == nil {
			hasDefault = true
			defBody = body
			continue
		}
		switch cm := cc.Comm.(type) {
		case *ast.SendStmt:
			ch, val := r.name("sc"), r.name("sv")
			pre = append(pre, &ast.AssignStmt{Lhs: []ast.Expr{ast.NewIdent(ch), ast.NewIdent(val)}, Tok: token.DEFINE, Rhs: []ast.Expr{cm.Chan, cm.Value}})
			comms = append(comms, &ast.SendStmt{Chan: ast.NewIdent(ch), Value: ast.NewIdent(val)})
		case *ast.ExprStmt:
			u, ok := cm.X.(*ast.UnaryExpr)
			if !ok || u.Op != token.ARROW {
				fail("%s: unsupported communication clause", lbl)
			}
			ch := r.name("rc")
			pre = append(pre, &ast.AssignStmt{Lhs: []ast.Expr{ast.NewIdent(ch)}, Tok: token.DEFINE, Rhs: []ast.Expr{u.X}})
			comms = append(comms, &ast.ExprStmt{X: &ast.UnaryExpr{Op: token.ARROW, X: ast.NewIdent(ch)}})
		case *ast.AssignStmt:
			if len(cm.Rhs) != 1 {
				fail("%s: unsupported communication clause", lbl)
			}
			u, ok := cm.Rhs[0].(*ast.UnaryExpr)
			if !ok || u.Op != token.ARROW {
				fail("%s: unsupported communication clause", lbl)
			}
			ch := r.name("rc")
			pre = append(pre, &ast.AssignStmt{Lhs: []ast.Expr{ast.NewIdent(ch)}, Tok: token.DEFINE, Rhs: []ast.Expr{u.X}})
			lhs := cm.Lhs
			if cm.Tok == token.DEFINE {
				// declare the received variables before the select, under fresh names
				var newLhs []ast.Expr
				for i, l := range cm.Lhs {
					id, ok := l.(*ast.Ident)
					if !ok {
						fail("%s: unsupported receive target", lbl)
					}
					if id.Name == "_" {
						newLhs = append(newLhs, ast.NewIdent("_"))
						continue
					}
					fresh := r.name("rv")
					if id.Obj != nil {
						for _, st := range body {
							renameObj(st, id.Obj, fresh)
						}
					} else {
						fail("%s: cannot resolve receive variable %s", lbl, id.Name)
					}
					var init ast.Expr
					if i == 0 {
						init = rtCall("Elem", ast.NewIdent(ch))
					} else {
						init = ast.NewIdent("false")
					}
					pre = append(pre, &ast.AssignStmt{Lhs: []ast.Expr{ast.NewIdent(fresh)}, Tok: token.DEFINE, Rhs: []ast.Expr{init}},
						&ast.AssignStmt{Lhs: []ast.Expr{ast.NewIdent("_")}, Tok: token.ASSIGN, Rhs: []ast.Expr{ast.NewIdent(fresh)}})
					newLhs = append(newLhs, ast.NewIdent(fresh))
				}
				lhs = newLhs
			}
			comms = append(comms, &ast.AssignStmt{Lhs: lhs, Tok: token.ASSIGN, Rhs: []ast.Expr{&ast.UnaryExpr{Op: token.ARROW, X: ast.NewIdent(ch)}}})
		default:
			fail("%s: unsupported communication clause", lbl)
		}
		bodies = append(bodies, body)
	}
	k := len(comms)
	idx := r.name("ix")
	setIdx := func(i int) ast.Stmt {
		return &ast.AssignStmt{Lhs: []ast.Expr{ast.NewIdent(idx)}, Tok: token.ASSIGN, Rhs: []ast.Expr{intLit(i)}}
	}
	var out []ast.Stmt
	out = append(out, pre...)
	if k < 2 {
		out = append(out, r.gate(sel.Pos(), "select"))
	}
	out = append(out, &ast.AssignStmt{Lhs: []ast.Expr{ast.NewIdent(idx)}, Tok: token.DEFINE, Rhs: []ast.Expr{intLit(-1)}})
	if k >= 2 {
		// preferred case first, without blocking
		sw := &ast.SwitchStmt{Tag: rtCall("Pref", intLit(k), strLit(lbl)), Body: &ast.BlockStmt{}}
		for i := 0; i < k; i++ {
			try := &ast.SelectStmt{Body: &ast.BlockStmt{List: []ast.Stmt{
				&ast.CommClause{Comm: cloneComm(comms[i]), Body: []ast.Stmt{setIdx(i)}},
				&ast.CommClause{Comm: nil, Body: nil},
			}}}
			sw.Body.List = append(sw.Body.List, &ast.CaseClause{List: []ast.Expr{intLit(i)}, Body: []ast.Stmt{try}})
		}
		out = append(out, sw)
		// then the other cases in source order, still without blocking: which ready case wins is never left to the run time
		for i := 0; i < k; i++ {
			try := &ast.SelectStmt{Body: &ast.BlockStmt{List: []ast.Stmt{
				&ast.CommClause{Comm: cloneComm(comms[i]), Body: []ast.Stmt{setIdx(i)}},
				&ast.CommClause{Comm: nil, Body: nil},
			}}}
			out = append(out, &ast.IfStmt{Cond: &ast.BinaryExpr{X: ast.NewIdent(idx), Op: token.LSS, Y: intLit(0)}, Body: &ast.BlockStmt{List: []ast.Stmt{try}}})
		}
	}
	// the original (blocking) select, bodies replaced by the index
	full := &ast.SelectStmt{Body: &ast.BlockStmt{}}
	for i := 0; i < k; i++ {
		full.Body.List = append(full.Body.List, &ast.CommClause{Comm: comms[i], Body: []ast.Stmt{setIdx(i)}})
	}
	if hasDefault {
		full.Body.List = append(full.Body.List, &ast.CommClause{Comm: nil, Body: []ast.Stmt{setIdx(k)}})
	}
	out = append(out, &ast.IfStmt{Cond: &ast.BinaryExpr{X: ast.NewIdent(idx), Op: token.LSS, Y: intLit(0)}, Body: &ast.BlockStmt{List: []ast.Stmt{full}}})
	// bodies
	bsw := &ast.SwitchStmt{Tag: ast.NewIdent(idx), Body: &ast.BlockStmt{}}
	// the last clause is the switch's `default` so that a select all of whose bodies return stays a
	// terminating statement for the compiler
	for i := 0; i < k; i++ {
		cl := &ast.CaseClause{List: []ast.Expr{intLit(i)}, Body: bodies[i]}
		if i == k-1 && !hasDefault {
			cl.List = nil
		}
		bsw.Body.List = append(bsw.Body.List, cl)
	}
	if hasDefault {
		bsw.Body.List = append(bsw.Body.List, &ast.CaseClause{List: nil, Body: defBody})
	}
	out = append(out, bsw)
	return []ast.Stmt{&ast.BlockStmt{List: out}}
}

func cloneComm(s ast.Stmt) ast.Stmt {
	switch v := s.(type) {
	case *ast.SendStmt:
		return &ast.SendStmt{Chan: v.Chan, Value: v.Value}
	case *ast.ExprStmt:
		return &ast.ExprStmt{X: v.X}
	case *ast.AssignStmt:
		return &ast.AssignStmt{Lhs: v.Lhs, Tok: v.Tok, Rhs: v.Rhs}
	}
	return s
}

func addImport(f *ast.File, path, name string) {
	for _, im := range f.Imports {
		if p, _ := strconv.Unquote(im.Path.Value); p == path {
			return
		}
	}
	spec := &ast.ImportSpec{Path: &ast.BasicLit{Kind: token.STRING, Value: strconv.Quote(path)}}
	if name != "" {
		spec.Name = ast.NewIdent(name)
	}
	for _, d := range f.Decls {
		if gd, ok := d.(*ast.GenDecl); ok && gd.Tok == token.IMPORT {
			gd.Specs = append(gd.Specs, spec)
			if !gd.Lparen.IsValid() {
				gd.Lparen = gd.Pos()
				gd.Rparen = gd.End()
			}
			f.Imports = append(f.Imports, spec)
			return
		}
	}
	f.Decls = append([]ast.Decl{&ast.GenDecl{Tok: token.IMPORT, Specs: []ast.Spec{spec}}}, f.Decls...)
	f.Imports = append(f.Imports, spec)
}

func swapImport(f *ast.File, from, to, name string) bool {
	done := false
	for _, im := range f.Imports {
		if p, _ := strconv.Unquote(im.Path.Value); p == from {
			im.Path.Value = strconv.Quote(to)
			if im.Name == nil {
				im.Name = ast.NewIdent(name)
			}
			done = true
		}
	}
	return done
}

func main() {
	var chanFiles, swapFiles, builderFiles, addFiles, stdFiles multi
	id := flag.String("id", "", "check id")
	out := flag.String("out", "", "output directory")
	flag.Var(&chanFiles, "chan", "file (relative to /repo/utils) to rewrite with R1/R2/R2s")
	flag.Var(&swapFiles, "swapsync", "file whose sync / go-deadlock imports are swapped for the shims (R3)")
	flag.Var(&builderFiles, "builder", "file whose strings.Builder becomes verifrt.Builder (R4)")
	flag.Var(&stdFiles, "stdstreams", "file whose os.Stdout / os.Stderr become verifrt.Stdout / verifrt.Stderr: every write is a scheduling point and lands in the harness's sink (R7)")
	flag.Var(&addFiles, "add", "relpath=source : overlay-only file (R5)")
	var eventSpecs multi
	flag.Var(&eventSpecs, "events", "file:Func1,Func2 : announce the entry of these functions / methods through verifrt.Event (R6)")
	flag.Parse()
	if *id == "" || *out == "" {
		fail("usage: instr -id ID -out DIR [-chan f]... [-swapsync f]... [-builder f]... [-add rel=src]...")
	}
	verifRoot := os.Getenv("VERIF_ROOT")
	if verifRoot == "" {
		verifRoot = "/verif"
	}
	_ = os.RemoveAll(*out)
	if err := os.MkdirAll(*out, 0o755); err != nil {
		fail("%v", err)
	}
	events := map[string][]string{}
	for _, e := range eventSpecs {
		parts := strings.SplitN(e, ":", 2)
		if len(parts) != 2 {
			fail("bad -events %q", e)
		}
		events[parts[0]] = strings.Split(parts[1], ",")
	}
	replace := map[string]string{}
	all := map[string]bool{}
	for f := range events {
		all[f] = true
	}
	for _, l := range [][]string{chanFiles, swapFiles, builderFiles, stdFiles} {
		for _, f := range l {
			all[f] = true
		}
	}
	in := func(l []string, f string) bool {
		for _, x := range l {
			if x == f {
				return true
			}
		}
		return false
	}
	// a development overlay (candidate fix / deliberate breakage, see vcheck) is instrumented instead of the file it replaces
	devOverlay := map[string]string{}
	if p := os.Getenv("VERIF_OVERLAY"); p != "" {
		var o struct{ Replace map[string]string }
		if b, err := os.ReadFile(p); err == nil && json.Unmarshal(b, &o) == nil {
			devOverlay = o.Replace
		}
	}
	for rel := range all {
		src := filepath.Join(repoUtils, rel)
		readFrom := src
		if m, ok := devOverlay[src]; ok {
			readFrom = m
		}
		fset := token.NewFileSet()
		var srcBytes any
		if readFrom != src {
			b, err := os.ReadFile(readFrom)
			if err != nil {
				fail("%v", err)
			}
			srcBytes = b
		}
		f, err := parser.ParseFile(fset, src, srcBytes, parser.ParseComments)
		if err != nil {
			fail("parse %s: %v", src, err)
		}
		r := &rewriter{fset: fset, file: rel}
		if in(chanFiles, rel) {
			for _, d := range f.Decls {
				if fd, ok := d.(*ast.FuncDecl); ok && fd.Body != nil {
					r.rewriteBlock(fd.Body)
				}
			}
		}
		if names, ok := events[rel]; ok {
			found := map[string]bool{}
			for _, d := range f.Decls {
				if fd, ok := d.(*ast.FuncDecl); ok && fd.Body != nil && in(names, fd.Name.Name) {
					fd.Body.List = append([]ast.Stmt{&ast.ExprStmt{X: rtCall("Event", strLit(fd.Name.Name))}}, fd.Body.List...)
					found[fd.Name.Name] = true
					r.usedRT = true
				}
			}
			for _, n := range names {
				if !found[n] {
					fail("%s: function %s (to be announced) not found", rel, n)
				}
			}
		}
		if in(swapFiles, rel) {
			a := swapImport(f, "sync", syncImport, "sync")
			b := swapImport(f, "github.com/sasha-s/go-deadlock", dlockImport, "deadlock")
			// lock-free code: the standard library's atomics become scheduling points too (go.uber.org/atomic is left alone)
			if swapImport(f, "sync/atomic", atomicImport, "atomic") {
				a = true
			}
			if !a && !b {
				// nothing to expose to the explorer in this file (any longer): not an error, the check's oracles decide
				fmt.Fprintf(os.Stderr, "[instr] note: %s imports neither sync nor go-deadlock; left as it is\n", rel)
			}
		}
		if in(builderFiles, rel) {
			n := 0
			ast.Inspect(f, func(x ast.Node) bool {
				if se, ok := x.(*ast.SelectorExpr); ok {
					if id, ok := se.X.(*ast.Ident); ok && id.Name == "strings" && se.Sel.Name == "Builder" {
						id.Name = "verifrt"
						n++
					}
				}
				return true
			})
			if n == 0 {
				fmt.Fprintf(os.Stderr, "[instr] note: %s uses no strings.Builder; left as it is\n", rel)
			}
			r.usedRT = true
		}
		if in(stdFiles, rel) {
			n := 0
			ast.Inspect(f, func(x ast.Node) bool {
				if se, ok := x.(*ast.SelectorExpr); ok {
					if id, ok := se.X.(*ast.Ident); ok && id.Name == "os" && (se.Sel.Name == "Stdout" || se.Sel.Name == "Stderr") {
						id.Name = "verifrt"
						n++
					}
				}
				return true
			})
			if n == 0 {
				fmt.Fprintf(os.Stderr, "[instr] note: %s uses neither os.Stdout nor os.Stderr; left as it is\n", rel)
			}
			r.usedRT = true
		}
		if r.usedRT {
			addImport(f, rtImport, "")
		}
		var buf bytes.Buffer
		// comments are dropped where statements moved: print without the comment map to avoid misplaced comments
		f.Comments = nil
		if err := format.Node(&buf, fset, f); err != nil {
			fail("print %s: %v", rel, err)
		}
		// unused imports (e.g. "strings" after R4) are handled by a blank use
		txt := buf.String()
		if in(builderFiles, rel) && !strings.Contains(strings.SplitN(txt, ")", 2)[1], "strings.") {
			txt += "\nvar _ = strings.TrimSpace\n"
		}
		if in(stdFiles, rel) && !strings.Contains(strings.SplitN(txt, ")", 2)[1], "os.") {
			txt += "\nvar _ = os.Getpid\n"
		}
		dst := filepath.Join(*out, strings.ReplaceAll(rel, "/", "__"))
		if err := os.WriteFile(dst, []byte(txt), 0o644); err != nil {
			fail("%v", err)
		}
		replace[src] = dst
	}
	for _, a := range addFiles {
		parts := strings.SplitN(a, "=", 2)
		if len(parts) != 2 {
			fail("bad -add %q", a)
		}
		replace[filepath.Join(repoUtils, parts[0])] = parts[1]
	}
	// the run-time packages, virtual inside the repository's module
	replace[filepath.Join(repoUtils, "verifrt", "rt.go")] = filepath.Join(verifRoot, "engine/verifrt/rt.go.src")
	replace[filepath.Join(repoUtils, "verifrt", "builder.go")] = filepath.Join(verifRoot, "engine/verifrt/builder.go.src")
	replace[filepath.Join(repoUtils, "verifrt", "vsync", "vsync.go")] = filepath.Join(verifRoot, "engine/verifrt/vsync.go.src")
	replace[filepath.Join(repoUtils, "verifrt", "vdeadlock", "vdeadlock.go")] = filepath.Join(verifRoot, "engine/verifrt/vdeadlock.go.src")
	replace[filepath.Join(repoUtils, "verifrt", "vatomic", "vatomic.go")] = filepath.Join(verifRoot, "engine/verifrt/vatomic.go.src")
	b, _ := json.MarshalIndent(map[string]any{"Replace": replace}, "", " ")
	ov := filepath.Join(verifRoot, ".build", "overlay-"+*id+".json")
	if err := os.WriteFile(ov, b, 0o644); err != nil {
		fail("%v", err)
	}
	fmt.Fprintf(os.Stderr, "[instr] %s: %d file(s) rewritten, overlay %s\n", *id, len(all), ov)
}

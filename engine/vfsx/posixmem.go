package vfsx

import (
	"os"
	"path/filepath"
	"syscall"
	"time"

	"github.com/spf13/afero"
)

// PosixMem is afero.MemMapFs with the four POSIX rules that MemMapFs lacks and that lock protocols
// built on directories depend on: removing a non-empty directory fails with ENOTEMPTY, and creating
// an entry below a missing parent fails with ENOENT, and creating or removing an entry updates the
// modification time of its parent directory, and a directory cannot be opened for writing (EISDIR).
// Everything else is MemMapFs. It is used as the
// in-memory stand-in of the OS backend ("several processes on one POSIX filesystem") so that
// exhaustive exploration does not pay for system calls; the raw MemMapFs and the real OS backend
// are explored as well, as separate scenarios.
type PosixMem struct {
	*afero.MemMapFs
}

func NewPosixMem() *PosixMem {
	return &PosixMem{MemMapFs: afero.NewMemMapFs().(*afero.MemMapFs)}
}

func (p *PosixMem) Name() string { return "PosixMemFS" }

func (p *PosixMem) Remove(name string) error {
	fi, err := p.MemMapFs.Stat(name)
	if err == nil && fi.IsDir() {
		f, err := p.MemMapFs.Open(name)
		if err == nil {
			names, _ := f.Readdirnames(1)
			_ = f.Close()
			if len(names) > 0 {
				return &os.PathError{Op: "remove", Path: name, Err: syscall.ENOTEMPTY}
			}
		}
	}
	err = p.MemMapFs.Remove(name)
	if err == nil {
		p.touchParent(name)
	}
	return err
}

func (p *PosixMem) touchParent(name string) {
	parent := filepath.Dir(filepath.Clean(name))
	now := time.Now()
	_ = p.MemMapFs.Chtimes(parent, now, now)
}

func (p *PosixMem) exists(name string) bool {
	_, err := p.MemMapFs.Stat(name)
	return err == nil
}

func (p *PosixMem) parentOK(name string) error {
	parent := filepath.Dir(filepath.Clean(name))
	if parent == "/" || parent == "." {
		return nil
	}
	fi, err := p.MemMapFs.Stat(parent)
	if err != nil {
		return &os.PathError{Op: "open", Path: name, Err: syscall.ENOENT}
	}
	if !fi.IsDir() {
		return &os.PathError{Op: "open", Path: name, Err: syscall.ENOTDIR}
	}
	return nil
}

func (p *PosixMem) Mkdir(name string, perm os.FileMode) error {
	if err := p.parentOK(name); err != nil {
		return err
	}
	err := p.MemMapFs.Mkdir(name, perm)
	if err == nil {
		p.touchParent(name)
	}
	return err
}

func (p *PosixMem) isDir(name string) bool {
	fi, err := p.MemMapFs.Stat(name)
	return err == nil && fi.IsDir()
}

func (p *PosixMem) OpenFile(name string, flag int, perm os.FileMode) (afero.File, error) {
	if flag&(os.O_WRONLY|os.O_RDWR|os.O_TRUNC|os.O_APPEND) != 0 && p.isDir(name) {
		// POSIX: a directory cannot be opened for writing (MemMapFs would let the caller overwrite the directory entry)
		return nil, &os.PathError{Op: "open", Path: name, Err: syscall.EISDIR}
	}
	if flag&os.O_CREATE != 0 {
		if err := p.parentOK(name); err != nil {
			return nil, err
		}
	}
	existed := p.exists(name)
	f, err := p.MemMapFs.OpenFile(name, flag, perm)
	if err == nil && !existed {
		p.touchParent(name)
	}
	return f, err
}

func (p *PosixMem) Create(name string) (afero.File, error) {
	if p.isDir(name) {
		return nil, &os.PathError{Op: "open", Path: name, Err: syscall.EISDIR}
	}
	if err := p.parentOK(name); err != nil {
		return nil, err
	}
	existed := p.exists(name)
	f, err := p.MemMapFs.Create(name)
	if err == nil && !existed {
		p.touchParent(name)
	}
	return f, err
}

package vfsx

import (
	"os"
	"path/filepath"
	"syscall"
	"time"

	"github.com/spf13/afero"
	"github.com/spf13/afero/mem"
)

// PosixMem is afero.MemMapFs with the POSIX rules that MemMapFs lacks and that lock and cache protocols
// built on directories depend on (a sixth, added for the cache: rename(2) onto a non-empty directory fails with
// ENOTEMPTY, onto an entry of the other kind with EISDIR / ENOTDIR, and a rename updates the time of both parents): removing a non-empty directory fails with ENOTEMPTY, and creating
// an entry below a missing parent fails with ENOENT, and creating or removing an entry updates the
// modification time of its parent directory, a directory cannot be opened for writing (EISDIR), and a handle on a removed directory lists nothing (ENOENT).
// The lock scenarios of C01 are run on PosixMem AND on the real OS filesystem (ClockedOS) and must agree execution for execution.
// Everything else is MemMapFs. It is used as the
// in-memory stand-in of the OS backend ("several processes on one POSIX filesystem") so that
// exhaustive exploration does not pay for system calls; the raw MemMapFs and the real OS backend
// are explored as well, as separate scenarios.
type PosixMem struct {
	*afero.MemMapFs
}

func NewPosixMem() *PosixMem {
	return &PosixMem{MemMapFs: afero.NewMemMapFs().(*afero.MemMapFs)}
}

func (p *PosixMem) Name() string { return "PosixMemFS" }

func (p *PosixMem) Remove(name string) error {
	fi, err := p.MemMapFs.Stat(name)
	if err == nil && fi.IsDir() {
		f, err := p.MemMapFs.Open(name)
		if err == nil {
			names, _ := f.Readdirnames(1)
			_ = f.Close()
			if len(names) > 0 {
				return &os.PathError{Op: "remove", Path: name, Err: syscall.ENOTEMPTY}
			}
		}
	}
	err = p.MemMapFs.Remove(name)
	if err == nil {
		p.touchParent(name)
	}
	return err
}

// Rename follows rename(2) where MemMapFs does not: MemMapFs replaces whatever is at newname, leaving the entries of a
// replaced directory behind as unreachable orphans.
func (p *PosixMem) Rename(oldname, newname string) error {
	ofi, oerr := p.MemMapFs.Stat(oldname)
	if oerr == nil && filepath.Clean(oldname) != filepath.Clean(newname) {
		if err := p.parentOK(newname); err != nil {
			return &os.LinkError{Op: "rename", Old: oldname, New: newname, Err: syscall.ENOENT}
		}
		if nfi, err := p.MemMapFs.Stat(newname); err == nil {
			switch {
			case nfi.IsDir() && !ofi.IsDir():
				return &os.LinkError{Op: "rename", Old: oldname, New: newname, Err: syscall.EISDIR}
			case !nfi.IsDir() && ofi.IsDir():
				return &os.LinkError{Op: "rename", Old: oldname, New: newname, Err: syscall.ENOTDIR}
			case nfi.IsDir():
				if f, err := p.MemMapFs.Open(newname); err == nil {
					names, _ := f.Readdirnames(1)
					_ = f.Close()
					if len(names) > 0 {
						return &os.LinkError{Op: "rename", Old: oldname, New: newname, Err: syscall.ENOTEMPTY}
					}
				}
				_ = p.MemMapFs.Remove(newname) // an empty directory is replaced
			}
		}
	}
	err := p.MemMapFs.Rename(oldname, newname)
	if err == nil {
		p.touchParent(oldname)
		p.touchParent(newname)
	}
	return err
}

func (p *PosixMem) touchParent(name string) {
	parent := filepath.Dir(filepath.Clean(name))
	now := time.Now()
	_ = p.MemMapFs.Chtimes(parent, now, now)
}

func (p *PosixMem) exists(name string) bool {
	_, err := p.MemMapFs.Stat(name)
	return err == nil
}

func (p *PosixMem) parentOK(name string) error {
	parent := filepath.Dir(filepath.Clean(name))
	if parent == "/" || parent == "." {
		return nil
	}
	fi, err := p.MemMapFs.Stat(parent)
	if err != nil {
		return &os.PathError{Op: "open", Path: name, Err: syscall.ENOENT}
	}
	if !fi.IsDir() {
		return &os.PathError{Op: "open", Path: name, Err: syscall.ENOTDIR}
	}
	return nil
}

func (p *PosixMem) Mkdir(name string, perm os.FileMode) error {
	if err := p.parentOK(name); err != nil {
		return err
	}
	err := p.MemMapFs.Mkdir(name, perm)
	if err == nil {
		p.touchParent(name)
	}
	return err
}

func (p *PosixMem) isDir(name string) bool {
	fi, err := p.MemMapFs.Stat(name)
	return err == nil && fi.IsDir()
}

func (p *PosixMem) OpenFile(name string, flag int, perm os.FileMode) (afero.File, error) {
	if flag&(os.O_WRONLY|os.O_RDWR|os.O_TRUNC|os.O_APPEND) != 0 && p.isDir(name) {
		// POSIX: a directory cannot be opened for writing (MemMapFs would let the caller overwrite the directory entry)
		return nil, &os.PathError{Op: "open", Path: name, Err: syscall.EISDIR}
	}
	if flag&os.O_CREATE != 0 {
		if err := p.parentOK(name); err != nil {
			return nil, err
		}
	}
	existed := p.exists(name)
	f, err := p.MemMapFs.OpenFile(name, flag, perm)
	if err == nil && !existed {
		p.touchParent(name)
	}
	return f, err
}

// Open: a handle on a directory keeps referring to THAT directory (inode): once it was removed — even if another
// directory now has the same name — listing through the handle fails with ENOENT, as on POSIX.
func (p *PosixMem) Open(name string) (afero.File, error) {
	f, err := p.MemMapFs.Open(name)
	if err != nil {
		return f, err
	}
	if mf, ok := f.(*mem.File); ok {
		if fi, e := mf.Stat(); e == nil && fi.IsDir() {
			return &posixDirHandle{File: f, fs: p, name: name, data: mf.Data()}, nil
		}
	}
	return f, nil
}

type posixDirHandle struct {
	afero.File
	fs   *PosixMem
	name string
	data *mem.FileData
}

func (d *posixDirHandle) gone() bool {
	cur, err := d.fs.MemMapFs.Open(d.name)
	if err != nil {
		return true
	}
	defer cur.Close()
	mf, ok := cur.(*mem.File)
	return !ok || mf.Data() != d.data
}

func (d *posixDirHandle) Readdir(n int) ([]os.FileInfo, error) {
	if d.gone() {
		return nil, &os.PathError{Op: "readdirent", Path: d.name, Err: syscall.ENOENT}
	}
	return d.File.Readdir(n)
}

func (d *posixDirHandle) Readdirnames(n int) ([]string, error) {
	if d.gone() {
		return nil, &os.PathError{Op: "readdirent", Path: d.name, Err: syscall.ENOENT}
	}
	return d.File.Readdirnames(n)
}

func (p *PosixMem) Create(name string) (afero.File, error) {
	if p.isDir(name) {
		return nil, &os.PathError{Op: "open", Path: name, Err: syscall.EISDIR}
	}
	if err := p.parentOK(name); err != nil {
		return nil, err
	}
	existed := p.exists(name)
	f, err := p.MemMapFs.Create(name)
	if err == nil && !existed {
		p.touchParent(name)
	}
	return f, err
}

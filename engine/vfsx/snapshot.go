package vfsx

import (
	"crypto/sha256"
	"encoding/hex"
	"fmt"
	"io"
	"os"
	"path/filepath"
	"sort"
	"strings"
	"sync"

	"github.com/spf13/afero"
)

// Entry is one line of a tree dump.
type Entry struct {
	Path    string // relative to the dump root, '/'-separated
	Kind    byte   // 'd', 'f', 'l'
	Content string // file content (or its hash when long), link target
	Size    int64
	MtimeNs int64
	Mode    os.FileMode
}

// SnapOpt selects what a dump records.
type SnapOpt struct {
	Mtime bool
	Mode  bool
	// HashOver: contents longer than this are replaced by their sha256 (0 = 256)
	HashOver int
}

// Snapshot walks fs (a *raw* backend, never a gated wrapper) below root and returns a canonical dump.
// Symbolic links are reported as links (never followed) when the backend can tell.
func Snapshot(fs afero.Fs, root string, opt SnapOpt) []Entry {
	if opt.HashOver == 0 {
		opt.HashOver = 256
	}
	var out []Entry
	var walk func(abs, rel string)
	lst, hasL := fs.(afero.Lstater)
	walk = func(abs, rel string) {
		var fi os.FileInfo
		var err error
		if hasL {
			fi, _, err = lst.LstatIfPossible(abs)
		} else {
			fi, err = fs.Stat(abs)
		}
		if err != nil {
			return
		}
		e := Entry{Path: rel, Size: fi.Size()}
		if opt.Mtime {
			e.MtimeNs = fi.ModTime().UnixNano()
		}
		if opt.Mode {
			e.Mode = fi.Mode()
		}
		switch {
		case fi.Mode()&os.ModeSymlink != 0:
			e.Kind = 'l'
			e.Size = 0
			if lr, ok := fs.(afero.LinkReader); ok {
				e.Content, _ = lr.ReadlinkIfPossible(abs)
			}
			out = append(out, e)
		case fi.IsDir():
			e.Kind = 'd'
			e.Size = 0
			if rel != "" {
				out = append(out, e)
			}
			f, err := fs.Open(abs)
			if err != nil {
				return
			}
			names, _ := f.Readdirnames(-1)
			_ = f.Close()
			sort.Strings(names)
			for _, n := range names {
				r := n
				if rel != "" {
					r = rel + "/" + n
				}
				walk(filepath.Join(abs, n), r)
			}
		default:
			e.Kind = 'f'
			f, err := fs.Open(abs)
			if err == nil {
				b, _ := io.ReadAll(f)
				_ = f.Close()
				if len(b) > opt.HashOver {
					h := sha256.Sum256(b)
					e.Content = "sha256:" + hex.EncodeToString(h[:])
				} else {
					e.Content = string(b)
				}
			} else {
				e.Content = "unreadable:" + err.Error()
			}
			out = append(out, e)
		}
	}
	walk(root, "")
	return out
}

// DumpString renders a dump on one line per entry.
func DumpString(es []Entry) string {
	var sb strings.Builder
	for _, e := range es {
		fmt.Fprintf(&sb, "%c %s", e.Kind, e.Path)
		if e.Kind != 'd' {
			fmt.Fprintf(&sb, " %q", e.Content)
		}
		if e.MtimeNs != 0 {
			fmt.Fprintf(&sb, " @%d", e.MtimeNs)
		}
		if e.Mode != 0 {
			fmt.Fprintf(&sb, " %v", e.Mode)
		}
		sb.WriteByte('\n')
	}
	return sb.String()
}

// Trace is a Hook that logs every call.
type Trace struct {
	mu  sync.Mutex
	Ops []Op
	// Keep limits memory: only mutating ops are kept when MutatingOnly is set.
	MutatingOnly bool
	Count        int64
	Mutating     int64
	// High-water marks of bytes written per handle / in total.
	WrittenPerHandle map[int64]int64
	WrittenTotal     int64
}

func NewTrace() *Trace { return &Trace{WrittenPerHandle: map[int64]int64{}} }

func (t *Trace) Before(op *Op) *Inject { return nil }

func (t *Trace) After(op *Op) {
	t.mu.Lock()
	defer t.mu.Unlock()
	t.Count++
	if op.Mutates {
		t.Mutating++
	}
	switch op.Kind {
	case KFWrite, KFWriteAt, KFWriteString:
		t.WrittenPerHandle[op.Handle] += int64(op.N)
		t.WrittenTotal += int64(op.N)
	case KFTruncate:
		// growing a file is writing it (whether the backend carried it out or the harness's cap refused it)
		if op.Size > t.WrittenPerHandle[op.Handle] {
			t.WrittenTotal += op.Size - t.WrittenPerHandle[op.Handle]
			t.WrittenPerHandle[op.Handle] = op.Size
		}
	}
	if !t.MutatingOnly || op.Mutates {
		t.Ops = append(t.Ops, *op)
	}
}

func (t *Trace) Reset() {
	t.mu.Lock()
	defer t.mu.Unlock()
	t.Ops = nil
	t.Count, t.Mutating, t.WrittenTotal = 0, 0, 0
	t.WrittenPerHandle = map[int64]int64{}
}

// Snapshot of the log.
func (t *Trace) Log() []Op {
	t.mu.Lock()
	defer t.mu.Unlock()
	return append([]Op(nil), t.Ops...)
}

// Package vfsx provides interposing afero.Fs layers that sit *under* the repository's real
// filesystem.VFS (built with filesystem.NewVirtualFileSystem), so that every backend call crosses
// harness code with its path and arguments. No repository change is needed: the seam is exported.
//
// A wrapper mirrors exactly the optional interfaces of what it wraps (see NewMem / NewOS), so the VFS
// takes the same branches as in production.
package vfsx

import (
	"fmt"
	"os"
	"path/filepath"
	"sync"
	"sync/atomic"
	"time"

	"github.com/spf13/afero"
)

// Kind of backend operation.
type Kind string

const (
	KMkdir        Kind = "Mkdir"
	KMkdirAll     Kind = "MkdirAll"
	KCreate       Kind = "Create"
	KOpen         Kind = "Open"
	KOpenFile     Kind = "OpenFile"
	KRemove       Kind = "Remove"
	KRemoveAll    Kind = "RemoveAll"
	KRename       Kind = "Rename"
	KStat         Kind = "Stat"
	KLstat        Kind = "Lstat"
	KChmod        Kind = "Chmod"
	KChown        Kind = "Chown"
	KChtimes      Kind = "Chtimes"
	KSymlink      Kind = "Symlink"
	KReadlink     Kind = "Readlink"
	KLink         Kind = "Link"
	KForceRemove  Kind = "ForceRemove"
	KFRead        Kind = "File.Read"
	KFReadAt      Kind = "File.ReadAt"
	KFWrite       Kind = "File.Write"
	KFWriteAt     Kind = "File.WriteAt"
	KFWriteString Kind = "File.WriteString"
	KFSeek        Kind = "File.Seek"
	KFClose       Kind = "File.Close"
	KFReaddir     Kind = "File.Readdir"
	KFReaddirN    Kind = "File.Readdirnames"
	KFStat        Kind = "File.Stat"
	KFSync        Kind = "File.Sync"
	KFTruncate    Kind = "File.Truncate"
)

// Op describes one backend call.
type Op struct {
	Seq     int64 // global sequence number in the FS (assigned before the hooks run)
	Client  int   // which wrapper (client / contender / process) issued it
	Kind    Kind
	Path    string // cleaned path (for File.* ops: the path the handle was opened on)
	Path2   string // Rename/Symlink/Link second path
	Flag    int
	Perm    os.FileMode
	Len     int   // bytes requested (read/write)
	Size    int64 // File.Truncate: the size asked for
	Handle  int64 // handle id for File.* ops and for the open call that created it
	Mtime   time.Time
	Mutates bool
	// results (filled in After)
	Err error
	N   int // bytes transferred, entries returned
	// Result digest usable for observation hashing (set by wrapper: size/isdir/mtime of stat, names...)
	Obs string
}

func (o *Op) String() string {
	s := fmt.Sprintf("c%d %s(%s", o.Client, o.Kind, o.Path)
	if o.Path2 != "" {
		s += "," + o.Path2
	}
	if o.Kind == KOpenFile {
		s += fmt.Sprintf(",flag=%#x", o.Flag)
	}
	// the length of a write is deliberately not part of the label: labels are compared across processes by
	// the replay assertion, and contents may embed process-dependent text (time.Time's monotonic reading)
	s += ")"
	return s
}

// Inject is what a hook may ask the wrapper to do instead of / around the backend call.
type Inject struct {
	Err   error // return this error; the backend call is NOT performed (unless Short >= 0)
	Short int   // for reads (> 0): deliver the first Short bytes together with Err. For writes: perform only the first Short bytes (then return Err, or io.ErrShortWrite-like n<len with nil err if Err==nil). -1 = unused
}

// Hook observes (and may perturb) backend calls.
type Hook interface {
	Before(op *Op) *Inject // nil = proceed normally
	After(op *Op)
}

// FS is the interposing afero.Fs.
type FS struct {
	inner  afero.Fs
	name   string
	Client int
	shared *Shared
}

// Shared is state common to all wrappers over one backend (op counter, handle table, hooks).
type Shared struct {
	mu      sync.Mutex
	Hooks   []Hook
	seq     atomic.Int64
	nextH   atomic.Int64
	Handles map[int64]string // open handle id -> path
}

func NewShared(hooks ...Hook) *Shared {
	return &Shared{Hooks: hooks, Handles: map[int64]string{}}
}

func (s *Shared) Ops() int64 { return s.seq.Load() }

// OpenHandles returns a copy of the open handle table.
func (s *Shared) OpenHandles() map[int64]string {
	s.mu.Lock()
	defer s.mu.Unlock()
	m := make(map[int64]string, len(s.Handles))
	for k, v := range s.Handles {
		m[k] = v
	}
	return m
}

func (f *FS) before(op *Op) *Inject {
	op.Seq = f.shared.seq.Add(1)
	op.Client = f.Client
	var inj *Inject
	for _, h := range f.shared.Hooks {
		if r := h.Before(op); r != nil && inj == nil {
			inj = r
		}
	}
	return inj
}

func (f *FS) after(op *Op, err error) {
	op.Err = err
	for _, h := range f.shared.Hooks {
		h.After(op)
	}
}

func clean(p string) string {
	if p == "" {
		return ""
	}
	return filepath.Clean(p)
}

func isWriteFlag(flag int) bool {
	return flag&(os.O_WRONLY|os.O_RDWR|os.O_APPEND|os.O_CREATE|os.O_TRUNC) != 0
}

func (f *FS) Name() string { return f.name }

func (f *FS) wrapFile(file afero.File, err error, op *Op) (afero.File, error) {
	if err != nil || file == nil {
		return file, err
	}
	h := f.shared.nextH.Add(1)
	op.Handle = h
	f.shared.mu.Lock()
	f.shared.Handles[h] = op.Path
	f.shared.mu.Unlock()
	return &File{File: file, fs: f, path: op.Path, h: h}, nil
}

func (f *FS) Create(name string) (afero.File, error) {
	op := &Op{Kind: KCreate, Path: clean(name), Mutates: true}
	if inj := f.before(op); inj != nil {
		f.after(op, inj.Err)
		return nil, inj.Err
	}
	file, err := f.inner.Create(name)
	file, err = f.wrapFile(file, err, op)
	f.after(op, err)
	return file, err
}

func (f *FS) Mkdir(name string, perm os.FileMode) error {
	op := &Op{Kind: KMkdir, Path: clean(name), Perm: perm, Mutates: true}
	if inj := f.before(op); inj != nil {
		f.after(op, inj.Err)
		return inj.Err
	}
	err := f.inner.Mkdir(name, perm)
	f.after(op, err)
	return err
}

func (f *FS) MkdirAll(path string, perm os.FileMode) error {
	op := &Op{Kind: KMkdirAll, Path: clean(path), Perm: perm, Mutates: true}
	if inj := f.before(op); inj != nil {
		f.after(op, inj.Err)
		return inj.Err
	}
	err := f.inner.MkdirAll(path, perm)
	f.after(op, err)
	return err
}

func (f *FS) Open(name string) (afero.File, error) {
	op := &Op{Kind: KOpen, Path: clean(name)}
	if inj := f.before(op); inj != nil {
		f.after(op, inj.Err)
		return nil, inj.Err
	}
	file, err := f.inner.Open(name)
	file, err = f.wrapFile(file, err, op)
	f.after(op, err)
	return file, err
}

func (f *FS) OpenFile(name string, flag int, perm os.FileMode) (afero.File, error) {
	op := &Op{Kind: KOpenFile, Path: clean(name), Flag: flag, Perm: perm, Mutates: isWriteFlag(flag)}
	if inj := f.before(op); inj != nil {
		f.after(op, inj.Err)
		return nil, inj.Err
	}
	file, err := f.inner.OpenFile(name, flag, perm)
	file, err = f.wrapFile(file, err, op)
	f.after(op, err)
	return file, err
}

func (f *FS) Remove(name string) error {
	op := &Op{Kind: KRemove, Path: clean(name), Mutates: true}
	if inj := f.before(op); inj != nil {
		f.after(op, inj.Err)
		return inj.Err
	}
	err := f.inner.Remove(name)
	f.after(op, err)
	return err
}

func (f *FS) RemoveAll(path string) error {
	op := &Op{Kind: KRemoveAll, Path: clean(path), Mutates: true}
	if inj := f.before(op); inj != nil {
		f.after(op, inj.Err)
		return inj.Err
	}
	err := f.inner.RemoveAll(path)
	f.after(op, err)
	return err
}

func (f *FS) Rename(oldname, newname string) error {
	op := &Op{Kind: KRename, Path: clean(oldname), Path2: clean(newname), Mutates: true}
	if inj := f.before(op); inj != nil {
		f.after(op, inj.Err)
		return inj.Err
	}
	err := f.inner.Rename(oldname, newname)
	f.after(op, err)
	return err
}

func obsInfo(fi os.FileInfo) string {
	if fi == nil {
		return ""
	}
	return fmt.Sprintf("%v|%d|%v|%d", fi.IsDir(), fi.Size(), fi.Mode(), fi.ModTime().UnixNano())
}

func (f *FS) Stat(name string) (os.FileInfo, error) {
	op := &Op{Kind: KStat, Path: clean(name)}
	if inj := f.before(op); inj != nil {
		f.after(op, inj.Err)
		return nil, inj.Err
	}
	fi, err := f.inner.Stat(name)
	op.Obs = obsInfo(fi)
	f.after(op, err)
	return fi, err
}

func (f *FS) Chmod(name string, mode os.FileMode) error {
	op := &Op{Kind: KChmod, Path: clean(name), Perm: mode, Mutates: true}
	if inj := f.before(op); inj != nil {
		f.after(op, inj.Err)
		return inj.Err
	}
	err := f.inner.Chmod(name, mode)
	f.after(op, err)
	return err
}

func (f *FS) Chown(name string, uid, gid int) error {
	op := &Op{Kind: KChown, Path: clean(name), Mutates: true}
	if inj := f.before(op); inj != nil {
		f.after(op, inj.Err)
		return inj.Err
	}
	err := f.inner.Chown(name, uid, gid)
	f.after(op, err)
	return err
}

func (f *FS) Chtimes(name string, atime time.Time, mtime time.Time) error {
	op := &Op{Kind: KChtimes, Path: clean(name), Mtime: mtime, Mutates: true}
	if inj := f.before(op); inj != nil {
		f.after(op, inj.Err)
		return inj.Err
	}
	err := f.inner.Chtimes(name, atime, mtime)
	f.after(op, err)
	return err
}

// ---- optional interfaces --------------------------------------------------------------------

// MemFS wraps a backend that (like afero.MemMapFs) implements afero.Fs and afero.Lstater only.
type MemFS struct{ FS }

func (f *MemFS) LstatIfPossible(name string) (os.FileInfo, bool, error) {
	op := &Op{Kind: KLstat, Path: clean(name)}
	if inj := f.before(op); inj != nil {
		f.after(op, inj.Err)
		return nil, false, inj.Err
	}
	fi, ok, err := f.inner.(afero.Lstater).LstatIfPossible(name)
	op.Obs = obsInfo(fi)
	f.after(op, err)
	return fi, ok, err
}

// osBackend is what the repository's ExtendedOsFs offers beyond afero.Fs.
type osBackend interface {
	afero.Fs
	afero.Lstater
	afero.Symlinker
	ChownIfPossible(name string, uid int, gid int) error
	LinkIfPossible(oldname, newname string) error
	ForceRemoveIfPossible(path string) error
}

// OSFS wraps the repository's ExtendedOsFs, mirroring all of its optional interfaces.
type OSFS struct{ FS }

func (f *OSFS) ob() osBackend { return f.inner.(osBackend) }

func (f *OSFS) LstatIfPossible(name string) (os.FileInfo, bool, error) {
	op := &Op{Kind: KLstat, Path: clean(name)}
	if inj := f.before(op); inj != nil {
		f.after(op, inj.Err)
		return nil, false, inj.Err
	}
	fi, ok, err := f.ob().LstatIfPossible(name)
	op.Obs = obsInfo(fi)
	f.after(op, err)
	return fi, ok, err
}

func (f *OSFS) SymlinkIfPossible(oldname, newname string) error {
	op := &Op{Kind: KSymlink, Path: clean(newname), Path2: oldname, Mutates: true}
	if inj := f.before(op); inj != nil {
		f.after(op, inj.Err)
		return inj.Err
	}
	err := f.ob().SymlinkIfPossible(oldname, newname)
	f.after(op, err)
	return err
}

func (f *OSFS) ReadlinkIfPossible(name string) (string, error) {
	op := &Op{Kind: KReadlink, Path: clean(name)}
	if inj := f.before(op); inj != nil {
		f.after(op, inj.Err)
		return "", inj.Err
	}
	s, err := f.ob().ReadlinkIfPossible(name)
	op.Obs = s
	f.after(op, err)
	return s, err
}

func (f *OSFS) ChownIfPossible(name string, uid int, gid int) error {
	op := &Op{Kind: KChown, Path: clean(name), Mutates: true}
	if inj := f.before(op); inj != nil {
		f.after(op, inj.Err)
		return inj.Err
	}
	err := f.ob().ChownIfPossible(name, uid, gid)
	f.after(op, err)
	return err
}

func (f *OSFS) LinkIfPossible(oldname, newname string) error {
	op := &Op{Kind: KLink, Path: clean(newname), Path2: clean(oldname), Mutates: true}
	if inj := f.before(op); inj != nil {
		f.after(op, inj.Err)
		return inj.Err
	}
	err := f.ob().LinkIfPossible(oldname, newname)
	f.after(op, err)
	return err
}

func (f *OSFS) ForceRemoveIfPossible(path string) error {
	op := &Op{Kind: KForceRemove, Path: clean(path), Mutates: true}
	if inj := f.before(op); inj != nil {
		f.after(op, inj.Err)
		return inj.Err
	}
	err := f.ob().ForceRemoveIfPossible(path)
	f.after(op, err)
	return err
}

// NewMem returns a wrapper for client `client` over a MemMapFs-like backend.
func NewMem(inner afero.Fs, shared *Shared, client int) *MemFS {
	if _, ok := inner.(afero.Lstater); !ok {
		panic("vfsx.NewMem: backend is not an afero.Lstater")
	}
	return &MemFS{FS{inner: inner, name: "vfsx(" + inner.Name() + ")", Client: client, shared: shared}}
}

// NewOS returns a wrapper for client `client` over the repository's ExtendedOsFs.
func NewOS(inner afero.Fs, shared *Shared, client int) *OSFS {
	if _, ok := inner.(osBackend); !ok {
		panic("vfsx.NewOS: backend does not offer the ExtendedOsFs interfaces")
	}
	return &OSFS{FS{inner: inner, name: "vfsx(" + inner.Name() + ")", Client: client, shared: shared}}
}

package vfsx

import (
	"os"
	"path/filepath"
	"time"

	"github.com/spf13/afero"
)

// ClockedOS is the real OS filesystem (below a sandbox directory) made to share the caller's clock: after every
// call that changes an inode the modification time of that inode — and of its parent directory when an entry appears or
// disappears — is set to time.Now() as the caller sees it. Inside a testing/synctest bubble that is the bubble's
// virtual clock, so code that compares file times with time.Now() (stale-lock detection) behaves as it would with a
// kernel running on the same clock. Paths are virtual absolute paths mapped below the sandbox root.
type ClockedOS struct {
	afero.Fs // afero.BasePathFs over afero.OsFs
	root     string
}

// NewClockedOS creates the sandbox directory (which must not exist yet) and returns the filesystem.
func NewClockedOS(root string) (*ClockedOS, error) {
	if err := os.MkdirAll(root, 0o755); err != nil {
		return nil, err
	}
	return &ClockedOS{Fs: afero.NewBasePathFs(afero.NewOsFs(), root), root: root}, nil
}

func (c *ClockedOS) Name() string { return "ClockedOS" }

// Destroy removes the sandbox.
func (c *ClockedOS) Destroy() { _ = os.RemoveAll(c.root) }

func (c *ClockedOS) stamp(name string, parent bool) {
	now := time.Now()
	_ = c.Fs.Chtimes(name, now, now)
	if parent {
		_ = c.Fs.Chtimes(filepath.Dir(filepath.Clean(name)), now, now)
	}
}

func (c *ClockedOS) exists(name string) bool {
	_, err := c.Fs.Stat(name)
	return err == nil
}

func (c *ClockedOS) LstatIfPossible(name string) (os.FileInfo, bool, error) {
	return c.Fs.(afero.Lstater).LstatIfPossible(name)
}

func (c *ClockedOS) Mkdir(name string, perm os.FileMode) error {
	err := c.Fs.Mkdir(name, perm)
	if err == nil {
		c.stamp(name, true)
	}
	return err
}

func (c *ClockedOS) MkdirAll(name string, perm os.FileMode) error {
	existed := c.exists(name)
	err := c.Fs.MkdirAll(name, perm)
	if err == nil && !existed {
		c.stamp(name, true)
	}
	return err
}

func (c *ClockedOS) Remove(name string) error {
	err := c.Fs.Remove(name)
	if err == nil {
		c.stamp(filepath.Dir(filepath.Clean(name)), false)
	}
	return err
}

func (c *ClockedOS) RemoveAll(name string) error {
	err := c.Fs.RemoveAll(name)
	if err == nil {
		c.stamp(filepath.Dir(filepath.Clean(name)), false)
	}
	return err
}

func (c *ClockedOS) Rename(oldname, newname string) error {
	err := c.Fs.Rename(oldname, newname)
	if err == nil {
		c.stamp(filepath.Dir(filepath.Clean(oldname)), false)
		c.stamp(filepath.Dir(filepath.Clean(newname)), false)
	}
	return err
}

func (c *ClockedOS) Create(name string) (afero.File, error) {
	return c.OpenFile(name, os.O_RDWR|os.O_CREATE|os.O_TRUNC, 0o666)
}

func (c *ClockedOS) OpenFile(name string, flag int, perm os.FileMode) (afero.File, error) {
	existed := c.exists(name)
	f, err := c.Fs.OpenFile(name, flag, perm)
	if err != nil {
		return f, err
	}
	if !existed {
		c.stamp(name, true)
	} else if flag&os.O_TRUNC != 0 {
		c.stamp(name, false)
	}
	if flag&(os.O_WRONLY|os.O_RDWR|os.O_APPEND) != 0 {
		return &clockedFile{File: f, fs: c, name: name}, nil
	}
	return f, nil
}

type clockedFile struct {
	afero.File
	fs   *ClockedOS
	name string
}

func (f *clockedFile) Write(p []byte) (int, error) {
	n, err := f.File.Write(p)
	if n > 0 {
		f.fs.stamp(f.name, false)
	}
	return n, err
}

func (f *clockedFile) WriteString(s string) (int, error) {
	n, err := f.File.WriteString(s)
	if n > 0 {
		f.fs.stamp(f.name, false)
	}
	return n, err
}

func (f *clockedFile) WriteAt(p []byte, off int64) (int, error) {
	n, err := f.File.WriteAt(p, off)
	if n > 0 {
		f.fs.stamp(f.name, false)
	}
	return n, err
}

func (f *clockedFile) Truncate(size int64) error {
	err := f.File.Truncate(size)
	if err == nil {
		f.fs.stamp(f.name, false)
	}
	return err
}

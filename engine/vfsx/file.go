package vfsx

import (
	"fmt"
	"os"
	"strings"
	"syscall"

	"github.com/spf13/afero"
)

// File wraps a backend handle: every call on it is a backend operation too.
type File struct {
	afero.File
	fs     *FS
	path   string
	h      int64
	closed bool
}

func (f *File) op(k Kind, mut bool) *Op {
	return &Op{Kind: k, Path: f.path, Handle: f.h, Mutates: mut}
}

func (f *File) Close() error {
	op := f.op(KFClose, false)
	if inj := f.fs.before(op); inj != nil {
		f.fs.after(op, inj.Err)
		return inj.Err
	}
	err := f.File.Close()
	if !f.closed {
		f.closed = true
		f.fs.shared.mu.Lock()
		delete(f.fs.shared.Handles, f.h)
		f.fs.shared.mu.Unlock()
	}
	f.fs.after(op, err)
	return err
}

func (f *File) Read(p []byte) (int, error) {
	op := f.op(KFRead, false)
	op.Len = len(p)
	if inj := f.fs.before(op); inj != nil {
		if inj.Short > 0 && inj.Short <= len(p) {
			// an interrupted read: the first Short bytes are delivered TOGETHER with the error
			n, _ := f.File.Read(p[:inj.Short])
			op.N = n
			op.Obs = string(p[:max(n, 0)])
			f.fs.after(op, inj.Err)
			return n, inj.Err
		}
		f.fs.after(op, inj.Err)
		return 0, inj.Err
	}
	n, err := f.File.Read(p)
	op.N = n
	op.Obs = string(p[:max(n, 0)])
	f.fs.after(op, err)
	return n, err
}

func (f *File) ReadAt(p []byte, off int64) (int, error) {
	op := f.op(KFReadAt, false)
	op.Len = len(p)
	if inj := f.fs.before(op); inj != nil {
		f.fs.after(op, inj.Err)
		return 0, inj.Err
	}
	n, err := f.File.ReadAt(p, off)
	op.N = n
	op.Obs = string(p[:max(n, 0)])
	f.fs.after(op, err)
	return n, err
}

func (f *File) Seek(offset int64, whence int) (int64, error) {
	op := f.op(KFSeek, false)
	if inj := f.fs.before(op); inj != nil {
		f.fs.after(op, inj.Err)
		return 0, inj.Err
	}
	n, err := f.File.Seek(offset, whence)
	op.Obs = fmt.Sprint(n)
	f.fs.after(op, err)
	return n, err
}

func (f *File) Write(p []byte) (int, error) {
	op := f.op(KFWrite, true)
	op.Len = len(p)
	if inj := f.fs.before(op); inj != nil {
		n := 0
		if inj.Short > 0 && inj.Short <= len(p) {
			n, _ = f.File.Write(p[:inj.Short])
		}
		op.N = n
		f.fs.after(op, inj.Err)
		return n, inj.Err
	}
	n, err := f.File.Write(p)
	op.N = n
	f.fs.after(op, err)
	return n, err
}

func (f *File) WriteAt(p []byte, off int64) (int, error) {
	op := f.op(KFWriteAt, true)
	op.Len = len(p)
	if inj := f.fs.before(op); inj != nil {
		n := 0
		if inj.Short > 0 && inj.Short <= len(p) {
			n, _ = f.File.WriteAt(p[:inj.Short], off)
		}
		op.N = n
		f.fs.after(op, inj.Err)
		return n, inj.Err
	}
	n, err := f.File.WriteAt(p, off)
	op.N = n
	f.fs.after(op, err)
	return n, err
}

func (f *File) WriteString(s string) (int, error) {
	op := f.op(KFWriteString, true)
	op.Len = len(s)
	if inj := f.fs.before(op); inj != nil {
		n := 0
		if inj.Short > 0 && inj.Short <= len(s) {
			n, _ = f.File.WriteString(s[:inj.Short])
		}
		op.N = n
		f.fs.after(op, inj.Err)
		return n, inj.Err
	}
	n, err := f.File.WriteString(s)
	op.N = n
	f.fs.after(op, err)
	return n, err
}

func (f *File) Readdir(count int) ([]os.FileInfo, error) {
	op := f.op(KFReaddir, false)
	if inj := f.fs.before(op); inj != nil {
		f.fs.after(op, inj.Err)
		return nil, inj.Err
	}
	l, err := f.File.Readdir(count)
	op.N = len(l)
	var sb strings.Builder
	for _, fi := range l {
		sb.WriteString(fi.Name())
		sb.WriteByte('/')
		sb.WriteString(obsInfo(fi))
		sb.WriteByte(';')
	}
	op.Obs = sb.String()
	f.fs.after(op, err)
	return l, err
}

func (f *File) Readdirnames(n int) ([]string, error) {
	op := f.op(KFReaddirN, false)
	if inj := f.fs.before(op); inj != nil {
		f.fs.after(op, inj.Err)
		return nil, inj.Err
	}
	l, err := f.File.Readdirnames(n)
	op.N = len(l)
	op.Obs = strings.Join(l, ";")
	f.fs.after(op, err)
	return l, err
}

func (f *File) Stat() (os.FileInfo, error) {
	op := f.op(KFStat, false)
	if inj := f.fs.before(op); inj != nil {
		f.fs.after(op, inj.Err)
		return nil, inj.Err
	}
	fi, err := f.File.Stat()
	op.Obs = obsInfo(fi)
	f.fs.after(op, err)
	return fi, err
}

func (f *File) Sync() error {
	op := f.op(KFSync, false)
	if inj := f.fs.before(op); inj != nil {
		f.fs.after(op, inj.Err)
		return inj.Err
	}
	err := f.File.Sync()
	f.fs.after(op, err)
	return err
}

// TruncateCap: a Truncate to more than this is recorded (Op.Size) but not carried out — an in-memory backend would allocate
// the bytes, a disk would be asked for them — and answered with "no space left on device". What the caller tried to do is
// in the trace; whoever judges a trace counts the attempt as a file of that size.
const TruncateCap = 64 << 20

func (f *File) Truncate(size int64) error {
	op := f.op(KFTruncate, true)
	op.Size = size
	if inj := f.fs.before(op); inj != nil {
		f.fs.after(op, inj.Err)
		return inj.Err
	}
	if size > TruncateCap {
		err := &os.PathError{Op: "truncate", Path: op.Path, Err: syscall.ENOSPC}
		f.fs.after(op, err)
		return err
	}
	err := f.File.Truncate(size)
	f.fs.after(op, err)
	return err
}
